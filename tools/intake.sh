#!/bin/bash
# intake.sh <PROP> <agentN>: take a sub-agent's deliverables from /tmp/wt_<PROP>_r6/mutant_out, remove its worktree, confirm, run the check
p=$1; n=$2; sid=${p}_agent$n; wt=/tmp/wt_${p}_r6; d=/verif/seeded/$sid
mkdir -p $d && cp $wt/mutant_out/patch.diff $d/patch.diff && cp $wt/mutant_out/demo.rs $d/seeded_demo.rs && cp $wt/mutant_out/notes.txt $d/notes.txt
git -C /repo worktree remove --force $wt
/verif/tools/confirm_seeded.sh $sid 2>&1 | tail -1 | tee $d/confirm.txt
cd /verif && python3 tools/run_seeded.py $sid $p
