#!/usr/bin/env python3-vt
"""debug: export the violation query of one obligation slice: tools/export_q.py <PROP> <fn> <on|off> <slice-json> <out.smt2>"""
import sys, os, json
sys.path.insert(0, os.path.dirname(os.path.dirname(os.path.abspath(__file__))))
from engine_m import harness, oblig, solve
from engine_m.sym import zor, znot
import checks_common, checks_def
pid, fn, prof, sl, out = sys.argv[1:6]
spec = checks_def.PROPS[pid]
sc = harness.Scratch(cfg_test=spec.get('cfg_test', False)); prog = harness.Program(sc, prof == 'on')
ob = [o for o in spec['obligations']('quick') if o.fn == fn][0]
se = oblig.sym_execute(prog, ob, json.loads(sl), prof == 'on')
ctx = se['ctx']
base = list(se['dom']) + list(ctx.side)
viol = zor(*[g for g, _, _ in ctx.panics]) if ob.kind == 'holds' else se['rg']
open(out, 'w').write(solve.to_smt2(base + [viol]))
print('written', out, 'side', len(ctx.side), 'panics', len(ctx.panics))
