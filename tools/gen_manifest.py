#!/usr/bin/env python3
"""Regenerates MANIFEST.json from checks_def (claimed properties) + the not-applicable table below."""
import json, os, sys
sys.path.insert(0, os.path.dirname(os.path.dirname(os.path.abspath(__file__))))
import manifest_def
json.dump(manifest_def.manifest(), open(os.path.join(os.path.dirname(os.path.dirname(os.path.abspath(__file__))), 'MANIFEST.json'), 'w'), indent=1)
print('MANIFEST.json written')
