#!/bin/bash
# confirm a seeded change whose demonstration is an in-crate test: $1 = seeded id, $2 = file to insert the demo into, $3 = regex of the line before which it is inserted
sid=$1; file=$2; anchor=$3; d=/verif/seeded/$sid; wt=/tmp/confirm_$sid
git -C /repo worktree add -q --detach $wt HEAD || exit 2
cd $wt
git apply $d/patch.diff || { echo "PATCH-FAILS"; git -C /repo worktree remove --force $wt; exit 2; }
suite=$(cargo test --workspace --no-fail-fast --offline 2>&1 | grep -E "^test result" | awk '{p+=$4; f+=$6} END {print p" passed "f" failed"}')
python3 - "$file" "$anchor" "$d/seeded_demo.rs" <<'PY'
import sys, re
f, anchor, demo = sys.argv[1:4]
s = open(f).read(); t = open(demo).read()
m = re.search(anchor, s, flags=re.M)
assert m, 'anchor not found'
open(f, 'w').write(s[:m.start()] + t + '\n' + s[m.start():])
PY
with=$(cargo test --offline --lib seeded_demo 2>&1 | grep -E "^test result" | tail -1)
git apply -R $d/patch.diff
without=$(cargo test --offline --lib seeded_demo 2>&1 | grep -E "^test result" | tail -1)
echo "suite_with_change: $suite | demo_with_change: $with | demo_without: $without"
cd /; git -C /repo worktree remove --force $wt
