#!/bin/bash
# confirm a seeded change independently in a fresh scratch worktree: existing suite passes with it; demo fails with it and passes without
sid=$1; d=/verif/seeded/$sid; wt=/tmp/confirm_$sid
git -C /repo worktree add -q --detach $wt HEAD || exit 2
cd $wt
git apply $d/patch.diff || { echo "PATCH-FAILS"; git -C /repo worktree remove --force $wt; exit 2; }
suite=$(cargo test --workspace --no-fail-fast --offline 2>&1 | grep -E "^test result" | awk '{p+=$4; f+=$6} END {print p" passed "f" failed"}')
cp $d/seeded_demo.rs tests/seeded_demo.rs
with=$(cargo test --offline --test seeded_demo 2>&1 | grep -E "^test result" | tail -1)
git checkout -q -- src
without=$(cargo test --offline --test seeded_demo 2>&1 | grep -E "^test result" | tail -1)
echo "suite_with_change: $suite | demo_with_change: $with | demo_without: $without"
cd /; git -C /repo worktree remove --force $wt
