#!/usr/bin/env python3
"""one-off source transformation of props/*.rs: assume(a && b && c) -> assume(a); assume(b); assume(c);
valid_off(x) -> two comparisons. (Simple comparisons as the direct argument of assume let the executor refine intervals.)"""
import re, sys, glob
def split_top(s):
    out=[];d=0;cur='';i=0
    while i<len(s):
        if s[i] in '([{': d+=1
        elif s[i] in ')]}': d-=1
        if d==0 and s.startswith(' && ',i): out.append(cur.strip()); cur=''; i+=4; continue
        cur+=s[i]; i+=1
    out.append(cur.strip()); return out
for f in glob.glob('/verif/props/*.rs'):
    t=open(f).read(); res=''; i=0
    while True:
        j=t.find('assume(',i)
        if j<0: res+=t[i:]; break
        # skip definitions / other identifiers
        if j>0 and (t[j-1].isalnum() or t[j-1]=='_') or t[j-3:j]=='fn ':
            res+=t[i:j+7]; i=j+7; continue
        d=1;k=j+7
        while d:
            if t[k]=='(': d+=1
            elif t[k]==')': d-=1
            k+=1
        inner=t[j+7:k-1]
        if '\n' in inner or '||' in inner and ' && ' not in inner:
            parts=[inner]
        else: parts=split_top(inner)
        parts2=[]
        for p in parts:
            m=re.match(r'^valid_off\((\w+)\)$',p)
            if m: parts2+=['%s > -86_400'%m.group(1),'%s < 86_400'%m.group(1)]
            else: parts2.append(p)
        rest=t[k:]
        if rest.startswith(';') and len(parts2)>1:
            res+=t[i:j]+' '.join('assume(%s);'%p for p in parts2); i=k+1
        else:
            res+=t[i:k]; i=k
    open(f,'w').write(res)
print('done')
