#!/usr/bin/env python3-vt
"""development helper: run one obligation:  tools/try.py <fn> [on|off] [param=lo:hi ...] [--abs name,...] [--timeout s] [--validate n]"""
import sys, os, json, tempfile
sys.path.insert(0, os.path.dirname(os.path.dirname(os.path.abspath(__file__))))
from engine_m import harness, oblig
import checks_common  # registers abstractions/hooks
def main():
    a = sys.argv[1:]
    fn = a[0]; prof = 'on'; dom = {}; abst = []; timeout = 120; nval = 0; kf = []; cfgtest = False; strlen = None; unwind = 16
    i = 1
    while i < len(a):
        x = a[i]
        if x in ('on', 'off'): prof = x
        elif x == '--abs': i += 1; abst = a[i].split(',')
        elif x == '--kf': i += 1; kf = a[i].split(',')
        elif x == '--timeout': i += 1; timeout = int(a[i])
        elif x == '--validate': i += 1; nval = int(a[i])
        elif x == '--cfgtest': cfgtest = True
        elif x == '--strlen': i += 1; strlen = int(a[i])
        elif x == '--unwind': i += 1; unwind = int(a[i])
        elif '=' in x:
            k, v = x.split('='); lo, hi = v.split(':'); dom[k] = (int(lo), int(hi))
        i += 1
    sc = harness.Scratch(cfg_test=cfgtest)
    prog = harness.Program(sc, prof == 'on')
    sc.finish_replay(prog)
    ob = oblig.Ob(fn, dom=dom, abstractions=abst, kf=kf, strlen=strlen, unwind=unwind, opts={'fmt_terms': True} if '--fmt' in a else None)
    qdir = os.path.join(sc.dir, 'q'); os.makedirs(qdir, exist_ok=True)
    pts = oblig.gen_points(prog, ob, nval, 1) if nval else None
    rec = oblig.run_slice(prog, ob, {}, prof == 'on', qdir, timeout, validate_points=pts)
    rec.pop('functions_encoded', None) if '--short' in a else None
    print(json.dumps(rec, indent=1, default=str))
main()
