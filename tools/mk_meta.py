#!/usr/bin/env python3
"""write seeded/<id>/meta.json from check_results.json: mk_meta.py <id> <property> <breaks> -- <needs_to_manifest>"""
import sys, json
sid, prop, breaks, needs = sys.argv[1], sys.argv[2], sys.argv[3], sys.argv[4]
d = '/verif/seeded/' + sid
cr = json.load(open(d + '/check_results.json'))
meta = {'id': sid, 'property': prop, 'breaks': breaks, 'needs_to_manifest': needs,
        'origin': 'fresh sub-agent given only the property text and its own scratch worktree',
        'confirmed': 'tools/confirm_seeded.sh in a fresh worktree: existing suite 198 passed 0 failed with the change; demo fails with it and passes without it',
        'ran': 'tools/run_seeded.py %s %s' % (sid, ' '.join(cr)),
        'check_results': cr, 'caught_by': [p for p, r in cr.items() if r['exit'] == 1 and r['violations'] > 0]}
if len(sys.argv) > 5: meta['note'] = sys.argv[5]
json.dump(meta, open(d + '/meta.json', 'w'), indent=1)
print(sid, 'caught_by', meta['caught_by'])
