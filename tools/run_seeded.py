#!/usr/bin/env python3
"""Run checks against a seeded change. usage: run_seeded.py [--in-repo] <seeded-id> <PROP> [<PROP>...]
default: the change is applied to a scratch git worktree of /repo and the checks read it through VERIF_REPO (nothing in /repo is
touched, so background runs against /repo are not disturbed); --in-repo: git -C /repo apply, check, git checkout (as in the brief)."""
import sys, os, subprocess, json, time
a = sys.argv[1:]
in_repo = '--in-repo' in a
a = [x for x in a if x != '--in-repo']
sid = a[0]; props = a[1:]
d = '/verif/seeded/' + sid
patch = d + '/patch.diff'
env = dict(os.environ, VERIF_JOBS=os.environ.get('VERIF_JOBS', '4'))
if in_repo:
    assert subprocess.run(['git', '-C', '/repo', 'status', '--porcelain', '--untracked-files=no'], capture_output=True, text=True).stdout.strip() == '', '/repo not clean'
    subprocess.run(['git', '-C', '/repo', 'apply', patch], check=True)
else:
    wt = '/tmp/mutrepo_' + sid
    subprocess.run(['git', '-C', '/repo', 'worktree', 'add', '-q', '--detach', wt, 'HEAD'], check=True)
    subprocess.run(['git', '-C', wt, 'apply', patch], check=True)
    env['VERIF_REPO'] = wt
res = {}
try:
    for p in props:
        t0 = time.time()
        # the evidence file of the property describes runs on /repo: keep it, a run against a seeded change must not replace it
        evf = '/verif/evidence/%s.json' % p
        saved = open(evf).read() if os.path.exists(evf) else None
        try:
            r = subprocess.run(['./check', p], cwd='/verif', capture_output=True, text=True, env=env)
        finally:
            if saved is not None: open(evf, 'w').write(saved)
        viol = [l for l in r.stdout.split('\n') if l.startswith('VIOLATION')]
        cex = [l.strip() for l in r.stdout.split('\n') if l.strip().startswith('counterexample')][:3]
        inc = [l.strip()[:200] for l in r.stdout.split('\n') if l.startswith('INCONCLUSIVE')][:2]
        res[p] = {'exit': r.returncode, 'violations': len(viol), 'first_counterexamples': cex, 'inconclusive': inc, 'wall_s': round(time.time() - t0, 1)}
        print(p, 'exit', r.returncode, 'violations', len(viol), (cex or inc)[:1], flush=True)
finally:
    if in_repo: subprocess.run(['git', '-C', '/repo', 'checkout', '--', '.'], check=True)
    else: subprocess.run(['git', '-C', '/repo', 'worktree', 'remove', '--force', wt])
old = json.load(open(d + '/check_results.json')) if os.path.exists(d + '/check_results.json') else {}
old.update(res)
json.dump(old, open(d + '/check_results.json', 'w'), indent=1)
