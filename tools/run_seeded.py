#!/usr/bin/env python3
"""apply a seeded change to /repo, run the given checks, undo it. usage: run_seeded.py <seeded-id> <PROP> [<PROP>...]  (tier via VERIF_TIER)"""
import sys, os, subprocess, json, time
sid = sys.argv[1]; props = sys.argv[2:]
d = '/verif/seeded/' + sid
patch = d + '/patch.diff'
assert subprocess.run(['git', '-C', '/repo', 'status', '--porcelain', '--untracked-files=no'], capture_output=True, text=True).stdout.strip() == '', '/repo not clean'
subprocess.run(['git', '-C', '/repo', 'apply', patch], check=True)
res = {}
try:
    for p in props:
        t0 = time.time()
        r = subprocess.run(['./check', p], cwd='/verif', capture_output=True, text=True, env=dict(os.environ, VERIF_JOBS=os.environ.get('VERIF_JOBS', '4')))
        viol = [l for l in r.stdout.split('\n') if l.startswith('VIOLATION')]
        cex = [l.strip() for l in r.stdout.split('\n') if l.strip().startswith('counterexample')][:3]
        res[p] = {'exit': r.returncode, 'violations': len(viol), 'first_counterexamples': cex, 'wall_s': round(time.time() - t0, 1)}
        print(p, 'exit', r.returncode, 'violations', len(viol), cex[:1], flush=True)
finally:
    subprocess.run(['git', '-C', '/repo', 'checkout', '--', '.'], check=True)
json.dump(res, open(d + '/check_results.json', 'w'), indent=1)
