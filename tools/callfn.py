#!/usr/bin/env python3-vt
"""debug: execute a crate fn on concrete ints with the symbolic executor: tools/callfn.py [on|off] fn v1 v2 ..."""
import sys, os
sys.path.insert(0, os.path.dirname(os.path.dirname(os.path.abspath(__file__))))
from engine_m import harness, oblig
from engine_m.sym import *
import z3
prof = sys.argv[1]; fn = sys.argv[2]; vals = [int(x) for x in sys.argv[3:]]
sc = harness.Scratch(); prog = harness.Program(sc, prof == 'on')
ctx = Ctx(); ex = Exec(prog.fns, prog.consts, prog.impl, prog.enums, ctx=ctx)
f = prog.fn(fn)
args = []
for p, v in zip(f.params, vals):
    ty = f.locals[p]
    if os.environ.get('SYMB'):
        x = z3.Int('a' + p); lo, hi = ty_range(ty); args.append(IV(x, ty, lo, hi)); ctx.side.append(x == v)
    else: args.append(mk_int(v, ty))
val, rg = ex.call_body(f, args, T)
print('value:', val); print('rg:', rg)
s = z3.Solver(); s.add(*ctx.side)
print(s.check())
if s.check() == z3.sat:
    m = s.model()
    def show(v):
        if isinstance(v, IV): return m.eval(v.t, model_completion=True)
        if isinstance(v, BV): return m.eval(v.t, model_completion=True)
        if isinstance(v, Agg): return [show(x) for x in v.f]
        if isinstance(v, En): return ('disc', show(v.disc), {k: [show(x) for x in p] for k, p in v.v.items()})
        return v
    print('eval:', show(val), 'rg', m.eval(rg, model_completion=True))
    for g, site, msg in ctx.panics:
        if z3.is_true(m.eval(g, model_completion=True)): print('PANIC', site, msg)
