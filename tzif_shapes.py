"""Bounded families of TZif byte strings for C18/C19: each family ("shape") is a length and a per-byte value interval; within a shape
every byte is a solver variable over its interval. Families come from the TZif layout (RFC 8536) and the POSIX TZ footer grammar:
class-fixed positions keep the reader's control flow concrete, `?` positions are free ASCII bytes, counts are free where stated."""

FREE = (0, 255)
MAGIC = [(84, 84), (90, 90), (105, 105), (102, 102)]

def be32(n): return [((n >> s) & 255,) * 2 for s in (24, 16, 8, 0)]

def header(ver, counts):
    """counts: six entries (isut, isstd, leap, time, type, char); an int fixes the count, 'b' frees its low byte, 'w' frees all four bytes"""
    h = list(MAGIC) + [(ver, ver) if isinstance(ver, int) else ver] + [(0, 0)] * 15
    for c in counts:
        if c == 'b': h += [(0, 0)] * 3 + [FREE]
        elif c == 'w': h += [FREE] * 4
        else: h += be32(c)
    return h

def body_len(counts, time_size):
    isut, isstd, leap, t, n, ch = counts
    return t * time_size + t + n * 6 + ch + leap * (time_size + 4) + isstd + isut

CLASS = {'a': (97, 122), 'A': (65, 90), 'd': (48, 57), '?': (0, 127), 'N': (10, 10), 'U': (0xC2, 0xDF), 'u': (0x80, 0xBF)}
def footer(tpl):
    """template: a lower-case letter, A upper-case letter, d digit, ? any ASCII byte, N newline, U/u lead/continuation byte of a 2-byte
    UTF-8 sequence, anything else itself; a list entry that is already an interval is kept"""
    return [c if isinstance(c, tuple) else CLASS[c] if c in CLASS else (ord(c), ord(c)) for c in tpl]

# the ASCII range cut at every byte value the footer reader compares against: on each piece all of its decisions are constant
# (except 0x0B inside 9..13, which is_ascii_whitespace excludes: that one decision stays symbolic)
PIECES = [(0, 0), (1, 8), (9, 13), (14, 31), (32, 32), (33, 42), (43, 43), (44, 44), (45, 45), (46, 46), (47, 47), (48, 57), (58, 58), (59, 59), (60, 60), (61, 61),
          (62, 62), (63, 64), (65, 73), (74, 74), (75, 76), (77, 77), (78, 90), (91, 96), (97, 122), (123, 127)]
def tpl_str(t):
    return ''.join(c if isinstance(c, str) else '[%d-%d]' % c for c in t).replace('\n', 'N').replace('\x00', '\\0')

def dom_of(bytes_dom):
    return len(bytes_dom), {i: d for i, d in enumerate(bytes_dom) if d != FREE}

def v1_file(counts, extra=0, cut=0):
    """version-1 file with fixed counts: body bytes free; `cut` bytes removed from the end, `extra` free bytes appended"""
    b = header(0, counts) + [FREE] * body_len(counts, 4) + [FREE] * extra
    return b[:len(b) - cut] if cut else b

def v2_file(ver, counts1, counts2, ftr, cut=0, ver2=None, extra=0):
    """version-2/3 file: v1 header+block with counts1, second header (version byte ver2, default the same) + block (8-byte times)
    with counts2, footer template"""
    # (when the second header names another version the reader may take block bytes for footer text: kept to lower-case letters there:
    # the footer model does not cover arbitrary non-UTF-8 bytes at free positions, and several free bytes of footer are slow)
    blk = [FREE] if ver2 is None else [(97, 122)]
    b = header(ver, counts1) + [FREE] * body_len(counts1, 4) + header(ver if ver2 is None else ver2, counts2) + blk * (body_len(counts2, 8) + extra) + footer(ftr)
    return b[:len(b) - cut] if cut else b

# ---- footer templates
FIXED = ['NaaadN', 'NaaaddN', 'Naaa-dN', 'Naaa-d:ddN', 'Naaa-dd:dd:ddN', 'Naaa+ddN', 'Naaad:ddN', 'Naaadd:dd:ddN', 'N<+dd>-dN', 'N<-dd>d:ddN', 'NAAAdN', 'NaaaaadddN']
ALT = ['Naaadaaa,Md.d.d,Md.d.dN', 'Naaadaaa,Mdd.d.d/d,Md.d.d/ddN', 'Naaa-ddaaa,Jd,JdddN', 'Naaadaaa,d,dddN', 'Naaadaaad,Jdd/d:dd,ddd/-dN',
       'N<+dd>-d<+dd>,Md.d.d/-d,Mdd.d.d/dddN', 'Naaadaaa-d:dd,Jddd/dd:dd:dd,dd/+dN', 'NAAAdAAA,Mdd.d.d,Mdd.d.d/dN']
HOSTILE = ['', 'N', 'NN', 'aaad', 'NaaadX', 'XaaadN', 'NaaaN', 'N:aaadN', 'NaaadaaaN', 'Naaadaaa,N', 'Naaadaaa,Md.dN', 'Naaadaaa,Md.d.dN', 'Naaadaaa,Md.d.d,N',
           'Naaadaaa,M.d.d,Md.d.dN', 'Naaadaaa,Mddd.d.d,Md.d.dN', 'Naaadaaa,Md.ddd.d,Md.d.dN', 'Naaadaaa,Md.d.ddd,Md.d.dN', 'Naaadaaa,Jdddd,dN', 'Naaadaaa,dddd,dN',
           'NaaaddddddddddddN', 'Naaadaaa,dddddddddddd,dN', 'Naaadaaa,Jdddddddddddd,dN', 'Naaadaaa,Md.d.dddd,Md.d.dN', 'Naaadaaa,d/dddddddddddd,dN',
           'Naaad:ddddddddddddN', 'Naaad:dd:ddddddddddddN', 'N<aaadN', 'N<aaa>N', 'Naaa-N', 'Naaa+N', 'Naaad:N', 'Naaad:dd:N', 'Naaadaaa,d/N', 'Naaadaaa,d/-N',
           'Naa\x00dN', 'Naaad\x00N', 'N N', 'N aaad N', 'Naaadaaa,Xd,dN', 'Naaadaaa,Md.d.d;Md.d.dN', 'Naaadaaa,d,d,dN', 'Naaadaaa,d,dXN', 'Naaadaaadaaa,d,dN',
           'NaaUudN', 'NaaudN', 'NaaUdN', 'NaaadUuN', 'NddN', 'N-dN', 'N,N', 'NaaadddN', 'Naaa-dddN', 'Naaad:dddN', 'Naaadaaa,Md.d.d/ddd,Md.d.dN', 'Naaadaaa,Md.d.d/-ddd,Md.d.dN', 'Naaadaaa,d/dddd,dN']

def mutations(tpl):
    """single-edit mutations of a template: every inner position deleted, replaced by a free ASCII byte, preceded by a free ASCII byte
    (so every single-byte ASCII substitution and insertion is inside one of the shapes), or replaced by any two-byte UTF-8 character"""
    out = []; t = list(tpl)
    for i in range(1, len(t) - 1):
        out.append(t[:i] + t[i + 1:])
        out.append(t[:i] + ['?'] + t[i + 1:])
        out.append(t[:i] + ['?'] + t[i:])
        out.append(t[:i] + ['U', 'u'] + t[i + 1:])      # a two-byte UTF-8 character in place of the byte (the footer stays valid UTF-8)
    out.append(t[:-1] + ['?'] + t[-1:])
    seen = set(); res = []
    for m in out:
        k = tpl_str(m)
        if k not in seen: seen.add(k); res.append(m)
    return res

MUT_BASES = ['NaadN', 'Naa-d:ddN', 'N<+d>dN', 'Naadaa,Md.d.d,JdN', 'Naadaad,d/-d,Jd/d:ddN']

def c19_reader_shapes(tier, seed=0):
    """(description, byte domains, profiles) of the reader-half families of C19"""
    import random
    out = []
    thorough = tier == 'thorough'
    # (1) version 1, any counts (low byte of each count free), all content free: every file of the length, incl. overrunning counts
    for L in ([44, 50, 55] if not thorough else list(range(44, 59))):
        out.append(('v1: any six counts < 256, all content bytes free, length %d' % L, (header(0, ['b'] * 6) + [FREE] * (L - 44)), ('on', 'off')))
    out.append(('v1: all 32 bits of the transition and type counts free, length 55', header(0, [0, 0, 0, 'w', 'w', 0]) + [FREE] * 11, ('on',)))
    out.append(('v1: all 32 bits of the leap/isstd/isut/char counts free, length 55', header(0, ['w', 'w', 'w', 0, 1, 'w']) + [FREE] * 11, ('on',)))
    # (2) truncated headers, wrong magic, unsupported versions
    for L in ([0, 3, 4, 5, 19, 20, 43] if not thorough else list(range(0, 44))):
        if L <= 4: out.append(('any %d bytes (shorter than a header)' % L, [FREE] * L, ('on',)))
        else:
            for ver in (0, 0x32):
                out.append(('version %d header cut to %d bytes, other bytes free' % (1 if ver == 0 else 2, L), (header(ver, ['w'] * 6)[:5] + [FREE] * 39)[:L], ('on',)))
    out.append(('magic bytes free, version 1 header', [FREE] * 4 + header(0, ['b'] * 6)[4:] + [FREE] * 6, ('on',)))
    for rng in ((1, 0x31), (0x34, 255)):
        out.append(('unsupported version byte %d..%d' % rng, header(rng, ['b'] * 6) + [FREE] * 11, ('on',)))
    # (3) version 1 with larger fixed tables, exact / one byte short / trailing bytes
    for counts in ([(0, 0, 0, 3, 2, 4), (1, 1, 1, 2, 1, 0)] if not thorough else [(0, 0, 0, 3, 2, 4), (1, 1, 1, 2, 1, 0), (2, 2, 0, 4, 3, 8), (0, 0, 2, 1, 2, 0), (0, 0, 0, 5, 1, 0)]):
        out.append(('v1 counts %s exact' % (counts,), v1_file(counts), ('on', 'off')))
        out.append(('v1 counts %s one byte short' % (counts,), v1_file(counts, cut=1), ('on',)))
        out.append(('v1 counts %s three trailing bytes' % (counts,), v1_file(counts, extra=3), ('on',)))
    # (4) version 2/3: tables x footers
    tables = [((0, 0, 0, 0, 0, 0), (0, 0, 0, 1, 1, 0))]
    if thorough: tables += [((0, 0, 0, 1, 1, 0), (0, 0, 0, 2, 2, 4)), ((0, 0, 0, 0, 1, 0), (1, 1, 1, 1, 1, 1))]
    for c1, c2 in tables:
        for ver in (0x32, 0x33):
            for tpl in FIXED + ALT + HOSTILE:
                if ver == 0x32 and tpl in HOSTILE and not thorough: continue
                out.append(('v%s counts %s/%s footer %s' % (chr(ver), c1, c2, tpl_str(tpl)), v2_file(ver, c1, c2, tpl), ('on', 'off') if tpl in FIXED + ALT and ver == 0x33 else ('on',)))
    for c2 in [(0, 0, 0, 0, 0, 0), (0, 0, 0, 1, 0, 0), (0, 0, 0, 2, 2, 4)]:
        for tpl in ('NaaadN', 'Naaadaaa,Md.d.d,Md.d.dN', 'NN'):
            out.append(('v2 counts %s footer %s' % (c2, tpl_str(tpl)), v2_file(0x32, (0, 0, 0, 0, 0, 0), c2, tpl), ('on',)))
    for cut in (1, 2, 7):
        out.append(('v2 file cut %d bytes short' % cut, v2_file(0x32, (0, 0, 0, 1, 1, 0), (0, 0, 0, 1, 1, 0), 'Naaadaaa,Md.d.d,Md.d.dN', cut=cut), ('on',)))
    # (4b) second header disagreeing with the first one about the version (incl. version 1, whose times are 4 bytes)
    for ver, ver2 in ((0x32, 0), (0x33, 0), (0x32, 0x33), (0x33, 0x32), (0x32, (1, 0x31)), (0x33, (0x34, 255))):
        for c2 in ([(0, 0, 0, 1, 1, 0)] if not thorough else [(0, 0, 0, 1, 1, 0), (0, 0, 0, 0, 1, 0), (0, 0, 0, 2, 2, 0)]):
            for extra in (0, 4):
                out.append(('first header version %s, second header version byte %s, counts %s, %d extra block bytes, footer NaaadN' % (chr(ver), ver2, c2, extra),
                            v2_file(ver, (0, 0, 0, 0, 0, 0), c2, 'NaaadN', ver2=ver2, extra=extra), ('on',)))
    # (5) single-edit mutations of footers: deletions and two-byte-character substitutions (class-fixed, fast) are all run in
    # both tiers; of the shapes with a free ASCII byte (substitution, insertion) the quick tier runs a seeded sample
    fixed_m = []; free_m = []
    for b in (MUT_BASES if not thorough else MUT_BASES + FIXED):      # (the long alternating templates with a free byte near their start do not finish within the cap)
        for m in mutations(b): (free_m if '?' in m else fixed_m).append(m)
    if not thorough:
        # (a free byte within the first four positions of a long template shifts everything after it symbolically and can take
        # minutes: left to the thorough tier)
        pool = [m for m in free_m if len(m) <= 12 or m.index('?') >= 4]
        rnd = random.Random(1000 + seed); free_m = rnd.sample(pool, 40)
    for m in fixed_m + free_m:
        out.append(('v3 footer mutation %s' % tpl_str(m), v2_file(0x33, (0, 0, 0, 0, 0, 0), (0, 0, 0, 1, 1, 0), m), ('on',)))
    # (6) short footers with every inner byte free
    for k in ([1, 2] if not thorough else [1, 2, 3]):
        out.append(('v3 footer: newline, %d free ASCII bytes, newline' % k, v2_file(0x33, (0, 0, 0, 0, 0, 0), (0, 0, 0, 0, 1, 0), 'N' + '?' * k + 'N'), ('on',)))
    for k in ([1, 2, 3] if not thorough else [1, 2, 3, 4]):
        out.append(('v3 footer: %d free ASCII bytes' % k, v2_file(0x33, (0, 0, 0, 0, 0, 0), (0, 0, 0, 0, 1, 0), '?' * k), ('on',)))
    return out
