#[allow(missing_docs, dead_code)]
pub mod verif_cron {
    use super::*;
    use crate::verif_props::assume;
    use crate::Offset;

    /// every member of `s` lies in lo..=hi and `s` is non-empty (representation invariant of a parsed field)
    #[inline(never)]
    pub fn set_within(s: &HashSet<u8>, lo: u8, hi: u8) -> bool {
        let mut any = false;
        let mut v: u16 = 0;
        while v <= 255 { if s.contains(&(v as u8)) { if (v as u8) < lo || (v as u8) > hi { return false; } any = true; } v += 1; }
        any
    }

    #[cfg(test)]
    pub fn prop_c17_first(minutes: HashSet<u8>, hours: HashSet<u8>, dom: HashSet<u8>, months: HashSet<u8>, dow: HashSet<u8>,
                          now_days: i32, now_secs: u32, w_days: i32, w_min: u32) {
        assume(set_within(&minutes, 0, 59)); assume(set_within(&hours, 0, 23)); assume(set_within(&dom, 1, 31));
        assume(set_within(&months, 1, 12)); assume(set_within(&dow, 0, 6));
        assume(now_secs < 86_400);
        let now = DateTime { days: now_days, nanoseconds: now_secs as u64 * 1_000_000_000, offset: Offset::Fixed(0) };
        let dom_r = dom.len() != 31; let dow_r = dow.len() != 7;
        let mut s = CronSchedule { minutes: minutes.clone(), hours: hours.clone(), days_of_month: dom.clone(), months: months.clone(), days_of_week: dow.clone(), last_schedule: None, now: Some(now) };
        let r = s.next().unwrap();
        // result: whole minute, strictly after the current minute, matches
        assert!(r.nanoseconds % 60_000_000_000 == 0);
        let now_min = now_days as i64 * 1440 + (now_secs / 60) as i64;
        let r_min = r.days as i64 * 1440 + (r.nanoseconds / 60_000_000_000) as i64;
        assert!(r_min > now_min);
        assert!(matches(&minutes, &hours, &dom, &months, &dow, dom_r, dow_r, r));
        // minimality: no matching minute strictly between
        assume(w_min < 1440);
        let w = DateTime { days: w_days, nanoseconds: w_min as u64 * 60_000_000_000, offset: Offset::Fixed(0) };
        let w_abs = w_days as i64 * 1440 + w_min as i64;
        assume(w_abs > now_min && w_abs < r_min);
        assert!(!matches(&minutes, &hours, &dom, &months, &dow, dom_r, dow_r, w));
    }

    #[cfg(test)]
    pub fn prop_c17_light(minutes: HashSet<u8>, hours: HashSet<u8>, dom: HashSet<u8>, months: HashSet<u8>, dow: HashSet<u8>, now_days: i32, now_secs: u32) {
        assume(set_within(&minutes, 0, 59)); assume(set_within(&hours, 0, 23)); assume(set_within(&dom, 1, 31));
        assume(set_within(&months, 1, 12)); assume(set_within(&dow, 0, 6));
        assume(now_secs < 86_400);
        let now = DateTime { days: now_days, nanoseconds: now_secs as u64 * 1_000_000_000, offset: Offset::Fixed(0) };
        let mut s = CronSchedule { minutes: minutes.clone(), hours: hours.clone(), days_of_month: dom.clone(), months: months.clone(), days_of_week: dow.clone(), last_schedule: None, now: Some(now) };
        let r = s.next().unwrap();
        assert!(r.nanoseconds % 60_000_000_000 == 0);
        let now_min = now_days as i64 * 1440 + (now_secs / 60) as i64;
        let r_min = r.days as i64 * 1440 + (r.nanoseconds / 60_000_000_000) as i64;
        assert!(r_min > now_min);
    }

    #[cfg(test)]
    fn matches(minutes: &HashSet<u8>, hours: &HashSet<u8>, dom: &HashSet<u8>, months: &HashSet<u8>, dow: &HashSet<u8>, dom_r: bool, dow_r: bool, t: DateTime) -> bool {
        let day_ok = if dom_r && dow_r { dom.contains(&(t.day() as u8)) || dow.contains(&t.weekday()) }
            else if dom_r { dom.contains(&(t.day() as u8)) } else if dow_r { dow.contains(&t.weekday()) } else { true };
        months.contains(&(t.month() as u8)) && day_ok && hours.contains(&(t.hour() as u8)) && minutes.contains(&(t.minute() as u8))
    }
}
