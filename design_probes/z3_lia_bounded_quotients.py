import time, sys
from z3 import *
mode=sys.argv[1]; lo=int(sys.argv[2]); hi=int(sys.argv[3])
cons=[]
cnt=[0]
def fdiv_pos(a,c,lo_a,hi_a):
    """floor division of a (known in [lo_a,hi_a]) by const c via fresh q,r with bounds"""
    cnt[0]+=1
    q=Int('q%d'%cnt[0]); r=Int('r%d'%cnt[0])
    cons.extend([a==q*c+r, r>=0, r<c, q>=lo_a//c, q<=hi_a//c])
    return q,r
def days_to_date(days, lo_d, hi_d):
    LEAPOCH=730179; D400=146097; D100=36524; D4=1461
    MD=[31,30,31,30,31,31,30,31,30,31,31,29]
    d = days - LEAPOCH
    # trunc div + fix == floor div
    qc,rem = fdiv_pos(d,D400,lo_d-LEAPOCH,hi_d-LEAPOCH)
    c,_ = fdiv_pos(rem,D100,0,D400-1); c = If(c==4,3,c)
    rem = rem - c*D100      # in [0, 36524]
    q,_ = fdiv_pos(rem,D4,0,36524)
    rem = rem - q*D4        # [0,1460]
    ry,_ = fdiv_pos(rem,365,0,1460); ry = If(ry==4,3,ry)
    year = 2000+ry+4*q+100*c+400*qc
    rem = rem - ry*365
    mon = IntVal(0); done = BoolVal(False)
    for md in MD:
        mon = If(done, mon, mon+1)
        brk = And(Not(done), rem<md)
        rem = If(Or(done,brk), rem, rem-md)
        done = Or(done, brk)
    mday = rem+1
    year = If(mon+2>12, year+1, year)
    mon = If(mon+2>12, mon-10, mon+2)
    year = If(year<1, year-1, year)
    return year, mon, mday
def is_leap(y):
    a = If(y<0, y+1, y)
    return And(a%4==0, Or(a%100!=0, a%400==0))
def mdays(y,m):
    return If(m==2, If(is_leap(y),29,28), If(Or(m==4,m==6,m==9,m==11),30,31))
d=Int('d')
y,m,dd=days_to_date(d,lo,hi)
s=Solver()
s.add(d>=lo, d<hi)
if mode=='step':
    y2,m2,dd2=days_to_date(d+1,lo+1,hi+1)
    last = dd==mdays(y,m)
    ey = If(And(last,m==12), If(y==-1, 1, y+1), y)
    em = If(last, If(m==12,1,m+1), m)
    ed = If(last, 1, dd+1)
    s.add(*cons)
    s.add(Not(And(y2==ey,m2==em,dd2==ed, m>=1,m<=12,dd>=1,dd<=mdays(y,m), y!=0)))
else:
    s.add(*cons)
    s.add(Not(And(m>=1,m<=12,dd>=1,dd<=mdays(y,m), y!=0)))
t=time.time(); r=s.check(); print(mode,lo,hi,r, round(time.time()-t,2))
if r==sat: print(s.model()[d])
