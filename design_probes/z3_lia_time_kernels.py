import time
from z3 import *
NPD=86400*10**9; NPS=10**9; NPH=3600*NPS
def tdiv(a,c): return If(a>=0, a/c, -((-a)/c))
def trem(a,c): return a - c*tdiv(a,c)
def absz(a): return If(a>=0,a,-a)

def nanos_to_days_nanos(t):
    day_nanos = absz(t) % NPD
    cond = And(t<0, day_nanos!=0)
    days = If(cond, tdiv(t,NPD)-1, tdiv(t,NPD))
    ok = And(days>=-2**31, days<2**31)
    adj = If(cond, NPD-day_nanos, day_nanos)
    return ok, days, adj

# 1. spec of nanos_to_days_nanos over all i128
t=Int('t')
ok,d,n=nanos_to_days_nanos(t)
s=Solver(); s.add(t>=-2**127, t<2**127)
s.add(Not(And(n>=0,n<NPD, Implies(ok, d*NPD+n==t), ok==And(t>=-2**31*NPD, t<2**31*NPD))))
t0=time.time(); print('n2dn spec', s.check(), time.time()-t0)

# 2. DateTime.add_hours: u64 overflow => panic; else exact
days=Int('days'); nanos=Int('nanos'); h=Int('h')
s=Solver(); s.add(days>=-2**31,days<2**31,nanos>=0,nanos<NPD,h>=0,h<2**32)
han=h*3600*NPS
ovf = Or(h*3600>=2**64, han>=2**64, nanos+han>=2**64)
tot=days*NPD+nanos+han
ok,d2,n2=nanos_to_days_nanos(tot)
inrange = And(tot>=-2**31*NPD, tot<2**31*NPD)
# property: panics iff not inrange; else exact
panics = Or(ovf, Not(ok))
s.add(Not(And(panics==Not(inrange), Implies(Not(panics), d2*NPD+n2==tot))))
t0=time.time(); r=s.check(); print('add_hours', r, time.time()-t0)
if r==sat: m=s.model(); print(m[days],m[nanos],m[h])

# 3. hours_since
def nanos_to_time_h(n): return ((n/NPS) % 2**32)/3600   # as u32 then /3600
def hours_total(d,n): return d*24+nanos_to_time_h(n)
def since(at,asub,bt,bsub): return at-bt-If(And(at>bt,asub<bsub),1,If(And(at<bt,asub>bsub),-1,0))
d1,n1,d2_,n2_=Ints('d1 n1 d2 n2')
s=Solver(); s.add(d1>=-2**31,d1<2**31,d2_>=-2**31,d2_<2**31,n1>=0,n1<NPD,n2_>=0,n2_<NPD)
r_=since(hours_total(d1,n1), n1%NPH, hours_total(d2_,n2_), n2_%NPH)
A=d1*NPD+n1; B=d2_*NPD+n2_
s.add(Not(r_==tdiv(A-B,NPH)))
t0=time.time(); r=s.check(); print('hours_since', r, time.time()-t0)
