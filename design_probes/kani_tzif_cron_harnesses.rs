#[cfg(kani)]
pub(crate) mod verif_model {
    #[derive(Debug, Clone)]
    pub struct HashSet<T> { pub mask: u64, _p: std::marker::PhantomData<T> }
    impl HashSet<u8> {
        pub fn new() -> Self { Self { mask: 0, _p: std::marker::PhantomData } }
        pub fn insert(&mut self, v: u8) -> bool { let had = self.contains(&v); if v < 64 { self.mask |= 1u64 << v; } had }
        pub fn contains(&self, v: &u8) -> bool { *v < 64 && (self.mask >> *v) & 1 == 1 }
        pub fn len(&self) -> usize { self.mask.count_ones() as usize }
        pub fn extend<I: IntoIterator<Item = u8>>(&mut self, it: I) { for v in it { self.insert(v); } }
    }
}
#[cfg(not(kani))]
pub(crate) mod verif_model { pub use std::collections::HashSet; }



#[cfg(kani)]
mod verif_tz {
    use crate::local::timezone::TimeZone;
    pub fn fmt_stub(_args: std::fmt::Arguments<'_>) -> String { String::new() }

    fn v3_footer_file(footer: &[u8]) -> Vec<u8> {
        let mut v = Vec::with_capacity(128);
        let mut h = [0u8; 44]; h[0]=b'T'; h[1]=b'Z'; h[2]=b'i'; h[3]=b'f'; h[4]=b'3';
        v.extend_from_slice(&h); v.extend_from_slice(&h); v.extend_from_slice(footer); v
    }
    fn digit() -> u8 { let d: u8 = kani::any(); kani::assume(d >= b'0' && d <= b'9'); d }

    // footer M-rule with arbitrary digits: lookup must not panic (expected: FAIL e.g. M0.x.x / week 0 / day 7..9)
    #[kani::proof]
    #[kani::unwind(40)]
    #[kani::stub(alloc::fmt::format, fmt_stub)]
    fn tz_footer_m_any() {
        let f = [b'\n', b'A', b'1', b'B', b',', b'M', digit(), b'.', digit(), b'.', digit(), b',', b'M', b'1', b'0', b'.', b'5', b'.', b'0', b'\n'];
        let file = v3_footer_file(&f);
        if let Ok(tz) = TimeZone::from_tzif(&file) {
            let ts: i64 = kani::any(); kani::assume(ts >= 0 && ts < 4_102_444_800);
            let _ = tz.to_local_time_type(ts);
        }
    }

    // same with valid month 1-9, week 1-5, day 0-6: must not panic (expected: SUCCESS)
    #[kani::proof]
    #[kani::unwind(40)]
    #[kani::stub(alloc::fmt::format, fmt_stub)]
    fn tz_footer_m_valid() {
        let (m, w, d) = (digit(), digit(), digit());
        kani::assume(m >= b'1' && w >= b'1' && w <= b'5' && d <= b'6');
        let f = [b'\n', b'A', b'1', b'B', b',', b'M', m, b'.', w, b'.', d, b',', b'M', b'1', b'0', b'.', b'5', b'.', b'0', b'\n'];
        let file = v3_footer_file(&f);
        if let Ok(tz) = TimeZone::from_tzif(&file) {
            let ts: i64 = kani::any(); kani::assume(ts >= 0 && ts < 4_102_444_800);
            let _ = tz.to_local_time_type(ts);
        }
    }
}
