#!/bin/bash
# usage: run.sh harness unwind timeout
h=$1; uw=$2; to=$3
cd /tmp/probe2/tgt/kani/x86_64-unknown-linux-gnu/debug/build/astroprobe2/*/out/ || exit 9
f=$(ls *$h.out | grep -v symtab | head -1); fn=$(echo $f | sed -E 's/^astroprobe2-[0-9a-f]+_(_R.*)\.out$/\1/')
goto-cc $f --function $fn -o w_$h.gb >/dev/null 2>&1
goto-instrument --add-library --no-malloc-may-fail w_$h.gb w_$h.gb >/dev/null 2>&1
goto-instrument --generate-function-body-options assert-false-assume-false --generate-function-body '.*' --drop-unused-functions w_$h.gb w_$h.gb > /dev/null 2>&1
goto-instrument --ensure-one-backedge-per-target w_$h.gb w_$h.gb >/dev/null 2>&1
( ulimit -v 24000000; /usr/bin/time -f "wall %e s maxrss %M KB" timeout $to cbmc --no-malloc-may-fail --no-undefined-shift-check --no-signed-overflow-check --nan-check --no-self-loops-to-assumptions --no-pointer-primitive-check --object-bits 16 --sat-solver cadical --slice-formula --unwind $uw --unwinding-assertions w_$h.gb --verbosity 9 > /tmp/probe2/cb_$h.txt 2>&1; echo "exit $?" >> /tmp/probe2/cb_$h.txt )
