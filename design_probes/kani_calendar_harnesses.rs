#[cfg(kani)]
mod h {
    use crate::util::date::convert::*;
    use crate::*;
    pub fn fmt_stub(_args: std::fmt::Arguments<'_>) -> String { String::new() }

    fn is_leap(y: i32) -> bool { let a = if y < 0 { y + 1 } else { y }; a % 4 == 0 && (a % 100 != 0 || a % 400 == 0) }
    fn mdays(y: i32, m: u32) -> u32 { match m { 2 => if is_leap(y) {29} else {28}, 4|6|9|11 => 30, _ => 31 } }
    fn succ(y: i32, m: u32, d: u32) -> (i32,u32,u32) {
        if d == mdays(y,m) { if m == 12 { (if y == -1 {1} else {y+1}, 1, 1) } else { (y, m+1, 1) } } else { (y, m, d+1) }
    }

    #[kani::proof]
    fn s_d2d_step_full() {
        let d: i32 = kani::any();
        kani::assume(d < i32::MAX);
        let (y,m,dd) = days_to_date(d);
        assert!(y != 0 && m >= 1 && m <= 12 && dd >= 1 && dd <= mdays(y,m));
        assert!(days_to_date(d+1) == succ(y,m,dd));
    }

    #[kani::proof]
    #[kani::stub(alloc::fmt::format, fmt_stub)]
    fn s_date_to_days_step_ad() {
        let y: i32 = kani::any(); let m: u32 = kani::any(); let dd: u32 = kani::any();
        kani::assume(y >= 1 && y <= 5_879_610 && m >= 1 && m <= 12 && dd >= 1 && dd <= mdays(y,m));
        let a = date_to_days(y,m,dd);
        let (y2,m2,d2) = succ(y,m,dd);
        let b = date_to_days(y2,m2,d2);
        match (a,b) { (Ok(a),Ok(b)) => { assert!(b == a + 1); }, _ => { assert!(false); } }
    }

    #[kani::proof]
    #[kani::stub(alloc::fmt::format, fmt_stub)]
    fn s_roundtrip_ad_full() {
        let d: i32 = kani::any();
        kani::assume(d >= 0);
        let (y, m, dd) = days_to_date(d);
        let back = date_to_days(y, m, dd);
        match back { Ok(b) => { assert!(b == d); }, Err(_) => { assert!(false); } }
    }

    #[kani::proof]
    #[kani::stub(alloc::fmt::format, fmt_stub)]
    fn s_roundtrip_ad_slice() {
        let d: i32 = kani::any();
        kani::assume(d >= 0 && d < (1<<27));
        let (y, m, dd) = days_to_date(d);
        let back = date_to_days(y, m, dd);
        match back { Ok(b) => { assert!(b == d); }, Err(_) => { assert!(false); } }
    }

    #[kani::proof]
    fn s_wday_step() {
        let d: i32 = kani::any();
        kani::assume(d >= 0 && d < i32::MAX);
        assert!(days_to_wday(d+1,false) == (days_to_wday(d,false)+1)%7);
    }
}
