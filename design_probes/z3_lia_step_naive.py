import time, sys
from z3 import *
def tdiv(a,c):  # truncating division by positive constant c
    return If(a>=0, a/c, -((-a)/c))
def trem(a,c):
    return a - c*tdiv(a,c)

def days_to_date(days):
    LEAPOCH=730179; D400=146097; D100=36524; D4=1461
    MD=[31,30,31,30,31,31,30,31,30,31,31,29]
    d = days - LEAPOCH
    qc = tdiv(d,D400); rem = trem(d,D400)
    neg = rem<0
    rem = If(neg, rem+D400, rem); qc = If(neg, qc-1, qc)
    c = tdiv(rem,D100); c = If(c==4, 3, c)
    rem = rem - c*D100
    q = tdiv(rem,D4)
    rem = rem - q*D4
    ry = tdiv(rem,365); ry = If(ry==4,3,ry)
    year = 2000+ry+4*q+100*c+400*qc
    rem = rem - ry*365
    # month loop
    mon = IntVal(0); done = BoolVal(False)
    for md in MD:
        mon = If(done, mon, mon+1)
        brk = And(Not(done), rem<md)
        rem = If(Or(done,brk), rem, rem-md)
        done = Or(done, brk)
    mday = rem+1
    year = If(mon+2>12, year+1, year)
    mon = If(mon+2>12, mon-10, mon+2)
    year = If(year<1, year-1, year)
    return year, mon, mday

def is_leap(y):  # spec on historical year (no year 0)
    a = If(y<0, y+1, y)
    return And(a%4==0, Or(a%100!=0, a%400==0))
def mdays(y,m):
    return If(m==2, If(is_leap(y),29,28), If(Or(m==4,m==6,m==9,m==11),30,31))

d=Int('d')
y,m,dd=days_to_date(d)
y2,m2,dd2=days_to_date(d+1)
last = dd==mdays(y,m)
ey = If(And(last,m==12), If(y==-1, 1, y+1), y)
em = If(last, If(m==12,1,m+1), m)
ed = If(last, 1, dd+1)
s=Solver()
lo,hi=int(sys.argv[1]),int(sys.argv[2])
s.add(d>=lo, d<hi)
s.add(Not(And(y2==ey,m2==em,dd2==ed, m>=1,m<=12,dd>=1,dd<=mdays(y,m), y!=0)))
t=time.time(); r=s.check(); print(r, time.time()-t)
if r==sat: print(s.model()[d])
