#[cfg(kani)]
mod h {
    use crate::*;
    use crate::util::format::*;
    use crate::util::parse::*;
    pub fn fmt_stub(_args: std::fmt::Arguments<'_>) -> String { String::new() }

    fn ascii_string<const N: usize>(len_max: usize) -> String {
        let bytes: [u8; N] = kani::any();
        let len: usize = kani::any();
        kani::assume(len <= len_max && len <= N);
        let mut v = Vec::with_capacity(N);
        let mut i = 0;
        while i < N { if i < len { kani::assume(bytes[i] < 0x80); v.push(bytes[i]); } i += 1; }
        unsafe { String::from_utf8_unchecked(v) }
    }

    // (a) one formatted field, symbolic value, real fmt machinery
    #[kani::proof]
    #[kani::unwind(12)]
    fn f_part_dd() {
        let d: i32 = kani::any();
        kani::assume(d >= 0 && d < 400);
        let s = format_date_part("dd", d);
        let day = crate::util::date::convert::days_to_date(d).2;
        let b = s.as_bytes();
        assert!(b.len() == 2);
        assert!(b[0] == b'0' + (day / 10) as u8 && b[1] == b'0' + (day % 10) as u8);
    }

    // (b) one parsed field, symbolic ascii string up to 3 bytes
    #[kani::proof]
    #[kani::unwind(6)]
    #[kani::stub(alloc::fmt::format, fmt_stub)]
    fn f_parse_part_dd() {
        let mut s = ascii_string::<3>(3);
        let r = parse_date_part("dd", &mut s);
        if let Ok(Some(p)) = r { assert!(p.value >= 0 && p.value <= 99); }
    }

    // (c) tokenizer on concrete pattern
    #[kani::proof]
    #[kani::unwind(12)]
    fn f_tokenize() {
        let parts = parse_format_string("yyyy-MM-dd");
        assert!(parts.len() == 5);
    }

    // (d) rfc3339 on symbolic ascii 20 bytes
    #[kani::proof]
    #[kani::unwind(22)]
    #[kani::stub(alloc::fmt::format, fmt_stub)]
    fn f_rfc3339_20() {
        let s = ascii_string::<20>(20);
        let _ = DateTime::parse_rfc3339(&s);
    }
}
