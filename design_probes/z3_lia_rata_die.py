import time, sys
from z3 import *
exec(open('p3.py').read().split("d=Int('d')")[0].replace("mode=sys.argv[1]; lo=int(sys.argv[2]); hi=int(sys.argv[3])",""))
lo=int(sys.argv[1]); hi=int(sys.argv[2]); bug=len(sys.argv)>3
def fdiv(a,c,lo_a,hi_a):
    q,r=fdiv_pos(a,c,lo_a,hi_a); return q
def N(y,m,dd,ylo,yhi):
    Y = If(y>0,y,y+1)      # astronomical
    p = Y-1
    leaps = fdiv(p,4,ylo-2,yhi) - fdiv(p,100,ylo-2,yhi) + fdiv(p,400,ylo-2,yhi)
    leap = is_leap(y)
    cum = [0,31,59,90,120,151,181,212,243,273,304,334]
    c = IntVal(0)
    for i in range(12):
        c = If(m==i+1, cum[i] + (If(leap,1,0) if i>=2 else 0), c)
    return 365*p + leaps + c + dd - 1
d=Int('d')
y,m,dd=days_to_date(d,lo,hi)
s=Solver(); s.add(d>=lo,d<hi)
n=N(y,m,dd,-5879612,5879612)
s.add(*cons)
s.add(Not(And(n==d, m>=1,m<=12,dd>=1,dd<=mdays(y,m), y!=0)))
t=time.time(); r=s.check(); print('rd-spec',lo,hi,r, round(time.time()-t,2))
if r==sat: print(s.model()[d])
