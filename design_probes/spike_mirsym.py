#!/usr/bin/env python3
"""Throwaway spike: symbolic execution of rustc MIR text (integer subset) to z3 LIA.
Not framework code; validates feasibility of the MIR->SMT engine described in DESIGN.md."""
import re, sys, time, itertools
import z3

INT_TYPES = {'i8':(8,1),'i16':(16,1),'i32':(32,1),'i64':(64,1),'i128':(128,1),'isize':(64,1),
             'u8':(8,0),'u16':(16,0),'u32':(32,0),'u64':(64,0),'u128':(128,0),'usize':(64,0),'char':(32,0)}
def ty_range(t):
    w,s = INT_TYPES[t]
    return (-(1<<(w-1)), (1<<(w-1))-1) if s else (0,(1<<w)-1)

# ---------------------------------------------------------------- MIR parsing
class Fn: pass

def split_top(s, sep=','):
    out=[];depth=0;cur='';instr=False;esc=False
    for ch in s:
        if instr:
            cur+=ch
            if esc: esc=False
            elif ch=='\\': esc=True
            elif ch=='"': instr=False
            continue
        if ch=='"': instr=True;cur+=ch;continue
        if ch in '([{<': depth+=1
        elif ch in ')]}>': depth-=1
        if ch==sep and depth==0: out.append(cur.strip());cur=''
        else: cur+=ch
    if cur.strip(): out.append(cur.strip())
    return out

def parse_mir(text):
    fns={}; consts={}
    lines=text.split('\n'); i=0
    while i<len(lines):
        l=lines[i]
        m=re.match(r'^fn (.+?)\((.*)\) -> (.+) \{$', l)
        if m:
            f=Fn(); f.name=m.group(1); f.params=[]; f.ret=m.group(3); f.locals={}; f.blocks={}
            for a in split_top(m.group(2)):
                mm=re.match(r'(_\d+): (.+)$',a)
                if mm: f.params.append(mm.group(1)); f.locals[mm.group(1)]=mm.group(2)
            i+=1; cur=None
            while lines[i]!='}':
                s=lines[i].strip()
                mm=re.match(r'let (?:mut )?(_\d+): (.+);$',s)
                if mm: f.locals[mm.group(1)]=mm.group(2)
                mm=re.match(r'(bb\d+)(?: \(cleanup\))?: \{$',s)
                if mm: cur=mm.group(1); f.blocks[cur]=[]
                elif cur and s and s!='}' and not s.startswith(('debug ','scope ','let ')):
                    # statements may span one line only in this dump
                    f.blocks[cur].append(s)
                elif s=='}' :
                    if lines[i].startswith('    }'): cur=None
                i+=1
            fns[f.name]=f
        else:
            m=re.match(r'^const (.+?): (.+?) = const (.+);$', l)
            if m: consts[m.group(1)]=('lit',m.group(3),m.group(2))
            else:
                m=re.match(r'^const (.+?): (.+?) = \{$', l)
                if m:
                    f=Fn(); f.name=m.group(1); f.params=[]; f.ret=m.group(2); f.locals={'_0':m.group(2)}; f.blocks={}
                    i+=1; cur=None
                    while lines[i]!='}':
                        s=lines[i].strip()
                        mm=re.match(r'let (?:mut )?(_\d+): (.+);$',s)
                        if mm: f.locals[mm.group(1)]=mm.group(2)
                        mm=re.match(r'(bb\d+)(?: \(cleanup\))?: \{$',s)
                        if mm: cur=mm.group(1); f.blocks[cur]=[]
                        elif cur and s and s!='}' and not s.startswith(('debug ','scope ','let ')):
                            f.blocks[cur].append(s)
                        i+=1
                    consts[f.name]=('body',f)
        i+=1
    return fns,consts

# ---------------------------------------------------------------- terms (z3-backed, with intervals)
class Ctx:
    def __init__(self):
        self.side=[]      # global definitional constraints
        self.divmemo={}
        self.n=0
        self.panics=[]    # (guard z3 bool, site)
        self.assumes=[]
        self.unwound=[]
        self.cur_guard=z3.BoolVal(True)
    def fresh(self,p):
        self.n+=1; return z3.Int('%s!%d'%(p,self.n))

class IV:  # int value: z3 term + type + interval
    __slots__=('t','ty','lo','hi','b')
    def __init__(s,t,ty,lo,hi): s.t=t;s.ty=ty;s.lo=lo;s.hi=hi
    def const(s): return s.lo if s.lo==s.hi else None
class BV:  # bool value
    __slots__=('t','c','cmp')
    def __init__(s,t,c=None): s.t=t; s.c=c   # c: python bool if constant
class Agg:
    def __init__(s,fields,kind='tuple'): s.f=list(fields); s.kind=kind
class En:   # enum: discriminant IV/int + variant payloads
    def __init__(s,disc,variants,ty=''): s.disc=disc; s.v=variants; s.ty=ty
class Ref:
    def __init__(s,frame,local,proj): s.frame=frame;s.local=local;s.proj=proj
class Opaque:
    def __init__(s,tag): s.tag=tag
class ArrIter:
    def __init__(s,arr,idx): s.arr=arr; s.idx=idx
class Closure:
    def __init__(s,defname,caps): s.defname=defname; s.caps=caps
class SetV:
    def __init__(s,arr,name=None):
        s.arr=arr; s.bits=[z3.Bool('%s_b%d'%(name,i)) for i in range(64)] if name else None
    def member(s,x):
        lo=max(x.lo,0); hi=min(x.hi,63)
        return z3.Or(*[z3.And(x.t==i,s.bits[i]) for i in range(lo,hi+1)]) if hi>=lo else z3.BoolVal(False)
UNIT=Agg([],'unit')

def mk_int(v,ty): return IV(z3.IntVal(v),ty,v,v)
def mk_bool(b): return BV(z3.BoolVal(b),b)

def wrap(ctx,t,lo,hi,ty):
    """wrap mathematical value into type range"""
    tlo,thi=ty_range(ty)
    if lo>=tlo and hi<=thi: return IV(t,ty,lo,hi)
    M=thi-tlo+1
    # k = floor((t - tlo)/M)
    k=ctx.fresh('wrapk'); r=ctx.fresh('wrapr')
    ctx.side += [t - tlo == k*M + r, r>=0, r<M, z3.Implies(ctx.cur_guard, z3.And(k>=(lo-tlo)//M, k<=(hi-tlo)//M))]
    return IV(r+tlo,ty,tlo,thi)

def fdiv(ctx,a,c):
    """floor div/mod of IV a by positive python int c -> (q term, r term, qlo,qhi)"""
    key=(a.t.get_id(),c)
    if key not in ctx.divmemo:
        q=ctx.fresh('q'); r=ctx.fresh('r')
        ctx.side += [a.t==q*c+r, r>=0, r<c]
        ctx.divmemo[key]=(q,r)
    q,r=ctx.divmemo[key]
    ctx.side += [z3.Implies(ctx.cur_guard, z3.And(q>=a.lo//c, q<=a.hi//c))]   # bounds hold under the path guard they were derived under
    return q,r,a.lo//c,a.hi//c

def ite_iv(c,a,b):
    if c.c is True: return a
    if c.c is False: return b
    return IV(z3.If(c.t,a.t,b.t),a.ty,min(a.lo,b.lo),max(a.hi,b.hi))

def merge(c,a,b):
    """value = if c then a else b"""
    if a is b: return a
    if isinstance(a,IV) and isinstance(b,IV): return ite_iv(c,a,b)
    if isinstance(a,BV) and isinstance(b,BV):
        if a.c is not None and a.c==b.c: return a
        return BV(z3.If(c.t,a.t,b.t))
    if isinstance(a,Agg) and isinstance(b,Agg) and len(a.f)==len(b.f):
        return Agg([merge(c,x,y) for x,y in zip(a.f,b.f)],a.kind)
    if isinstance(a,En) and isinstance(b,En):
        d=merge(c,a.disc,b.disc); v={}
        for k in set(a.v)|set(b.v):
            if k in a.v and k in b.v: v[k]=[merge(c,x,y) for x,y in zip(a.v[k],b.v[k])]
            else: v[k]=a.v.get(k,b.v.get(k))
        return En(d,v,a.ty)
    if isinstance(a,SetV) and isinstance(b,SetV) and a.arr.eq(b.arr): return a
    if isinstance(a,Opaque) or isinstance(b,Opaque): return Opaque('merged')
    if a is None: return b
    if b is None: return a
    raise Exception('merge %r %r'%(a,b))

# ---------------------------------------------------------------- executor
class Path:
    def __init__(s,guard,env,block): s.g=guard; s.env=env; s.bb=block
class PanicAll(Exception): pass

class Exec:
    def __init__(self,fns,consts,ctx,impl_index):
        self.fns=fns; self.consts=consts; self.ctx=ctx; self.impl=impl_index; self.constcache={}; self.unwind=int(__import__('os').environ.get('UNWIND','16'))
        self.depth=0
    # ---- name resolution
    def resolve(self,callee):
        callee=re.sub(r'::<[^()]*>$','',callee)        # strip turbofish at end
        if callee in self.fns: return callee
        m=re.match(r'^<(?:[\w:]*::)?(\w+) as (?:[\w:]*::)?(\w+)>::(\w+)$',callee)
        if m:
            k=(m.group(1),m.group(2),m.group(3))
            if k in self.impl: return self.impl[k]
        m=re.match(r'^(?:[\w:]*::)?(\w+)::(\w+)$',callee)
        if m and (m.group(1),None,m.group(2)) in self.impl: return self.impl[(m.group(1),None,m.group(2))]
        last=callee.split('::')
        cands=[n for n in self.fns if n.split('::')[-len(last):]==last or last[-len(n.split('::')):]==n.split('::')]
        cands=[n for n in cands if '<impl' not in n]
        if len(cands)==1: return cands[0]
        return None
    # ---- constants
    def const_value(self,name,ty):
        if name in self.constcache: return self.constcache[name]
        key=None
        for k in self.consts:
            if k==name or k.split('::')[-1]==name.split('::')[-1] and (k.endswith(name) or name.endswith(k)): key=k;break
        if key is None: raise Exception('unknown const '+name)
        c=self.consts[key]
        if c[0]=='lit': v=self.literal(c[1],c[2])
        else:
            v,_=self.call_body(c[1],[],z3.BoolVal(True))
        self.constcache[name]=v; return v
    def literal(self,s,ty=None):
        s=s.strip()
        if s in('true','false'): return mk_bool(s=='true')
        m=re.match(r'^(-?[\d_]+)_([iu](?:8|16|32|64|128|size))$',s)
        if m: return mk_int(int(m.group(1).replace('_','')),m.group(2))
        m=re.match(r'^([iu](?:8|16|32|64|128|size))::(MIN|MAX)$',s)
        if m: lo,hi=ty_range(m.group(1)); return mk_int(lo if m.group(2)=='MIN' else hi,m.group(1))
        m=re.match(r'^core::num::<impl ([iu](?:8|16|32|64|128|size))>::(MIN|MAX)$',s)
        if m: lo,hi=ty_range(m.group(1)); return mk_int(lo if m.group(2)=='MIN' else hi,m.group(1))
        if s=='()': return UNIT
        if s.startswith('"') or s.startswith('b"'): return Opaque('str')
        if s.startswith("'"): return mk_int(ord(eval(s)),'char')
        # named constant
        return self.const_value(s,ty)
    # ---- places
    def parse_place(self,s):
        s=s.strip()
        m=re.match(r'^_\d+$',s)
        if m: return (s,[])
        if s.startswith('(*') and s.endswith(')'):
            b,p=self.parse_place(s[2:-1]); return (b,p+[('deref',)])
        if s.startswith('(') and s.endswith(')'):
            inner=s[1:-1]
            # (PLACE.k: TYPE)  or (PLACE as Variant)
            m=re.match(r'^(.*) as (\w+)$',inner)
            if m and self.balanced(m.group(1)):
                b,p=self.parse_place(m.group(1)); return (b,p+[('downcast',m.group(2))])
            # find last '.k:' at depth 0
            depth=0; idx=None
            for i,ch in enumerate(inner):
                if ch in '([{<': depth+=1
                elif ch in ')]}>': depth-=1
                elif ch=='.' and depth==0 and re.match(r'\.\d+:',inner[i:]): idx=i
            if idx is not None:
                k=int(re.match(r'\.(\d+):',inner[idx:]).group(1))
                b,p=self.parse_place(inner[:idx]); return (b,p+[('field',k)])
        m=re.match(r'^(.*)\[(_\d+)\]$',s)
        if m: b,p=self.parse_place(m.group(1)); return (b,p+[('index',m.group(2))])
        raise Exception('place? '+s)
    def balanced(self,s):
        d=0
        for ch in s:
            if ch in '([{<': d+=1
            elif ch in ')]}>': d-=1
            if d<0: return False
        return d==0
    VARIANTS={'Ok':0,'Err':1,'None':0,'Some':1,'Continue':0,'Break':1,'Fixed':0,'Local':1,'OutOfRange':0,'InvalidFormat':1}
    def read(self,frame,place):
        base,proj=place
        v=frame.get(base)
        return self.view(frame,self.project(frame,v,proj)) if '__ref' in frame else self.project(frame,v,proj)
    def project(self,frame,v,proj):
        for p in proj:
            if p[0]=='deref':
                assert isinstance(v,Ref),('deref of',v)
                v=self.read(v.frame,(v.local,v.proj))
            elif p[0]=='field':
                if isinstance(v,Agg): v=v.f[p[1]]
                elif isinstance(v,list): v=v[p[1]]
                elif isinstance(v,Opaque): v=Opaque('field')
                else: raise Exception('field of %r'%v)
            elif p[0]=='downcast':
                assert isinstance(v,En),v
                v=v.v[self.VARIANTS[p[1]]]
            elif p[0]=='index':
                idx=frame[p[1]]
                assert isinstance(v,Agg) and idx.const() is not None
                v=v.f[idx.const()]
        return v
    def write(self,frame,place,val):
        base,proj=place
        if not proj: frame[base]=val; return
        # resolve derefs to the target frame
        if proj[0][0]=='deref':
            r=frame[base]; return self.write(r.frame,(r.local,r.proj+proj[1:]),val)
        cur=frame.get(base)
        frame[base]=self.updated(frame,cur,proj,val)
    def updated(self,frame,cur,proj,val):
        if not proj: return val
        p=proj[0]
        if p[0]=='field':
            if cur is None: cur=Agg([None]*(p[1]+1))
            if isinstance(cur,Agg):
                f=list(cur.f)
                while len(f)<=p[1]: f.append(None)
                f[p[1]]=self.updated(frame,f[p[1]],proj[1:],val); return Agg(f,cur.kind)
            if isinstance(cur,list):
                f=list(cur); f[p[1]]=self.updated(frame,f[p[1]],proj[1:],val); return f
        raise Exception('write proj %r'%(proj,))
    # ---- operands
    def operand(self,frame,s):
        s=s.strip()
        if s.startswith('copy ') or s.startswith('move '):
            return self.read(frame,self.parse_place(s[5:]))
        if s.startswith('const '): return self.literal(s[6:])
        if s.startswith('no_retag '): return self.operand(frame,s[9:])
        raise Exception('operand? '+s)
    # ---- rvalues
    def binop(self,op,a,b):
        ctx=self.ctx
        if op in('Eq','Ne','Lt','Le','Gt','Ge'):
            if isinstance(a,BV):
                t={'Eq':a.t==b.t,'Ne':a.t!=b.t}[op]; return BV(t)
            if a.const() is not None and b.const() is not None:
                x,y=a.const(),b.const(); return mk_bool({'Eq':x==y,'Ne':x!=y,'Lt':x<y,'Le':x<=y,'Gt':x>y,'Ge':x>=y}[op])
            # interval decide
            if op=='Lt' and a.hi<b.lo: return mk_bool(True)
            if op=='Lt' and a.lo>=b.hi: return mk_bool(False)
            if op=='Le' and a.hi<=b.lo: return mk_bool(True)
            if op=='Le' and a.lo>b.hi: return mk_bool(False)
            if op=='Gt' and a.lo>b.hi: return mk_bool(True)
            if op=='Gt' and a.hi<=b.lo: return mk_bool(False)
            if op=='Ge' and a.lo>=b.hi: return mk_bool(True)
            if op=='Ge' and a.hi<b.lo: return mk_bool(False)
            if op=='Eq' and (a.hi<b.lo or a.lo>b.hi): return mk_bool(False)
            if op=='Ne' and (a.hi<b.lo or a.lo>b.hi): return mk_bool(True)
            t={'Eq':a.t==b.t,'Ne':a.t!=b.t,'Lt':a.t<b.t,'Le':a.t<=b.t,'Gt':a.t>b.t,'Ge':a.t>=b.t}[op]
            r=BV(t); r.cmp=(op,a,b); return r
        if op in('BitAnd','BitOr','BitXor') and isinstance(a,BV):
            if op=='BitAnd':
                if a.c is False or b.c is False: return mk_bool(False)
                if a.c is True: return b
                if b.c is True: return a
                return BV(z3.And(a.t,b.t))
            if op=='BitOr': return BV(z3.Or(a.t,b.t))
            return BV(z3.Xor(a.t,b.t))
        ty=a.ty
        if op in('Add','Sub','Mul','AddWithOverflow','SubWithOverflow','MulWithOverflow'):
            base=op.replace('WithOverflow','')
            if base=='Add': t=a.t+b.t; lo=a.lo+b.lo; hi=a.hi+b.hi
            elif base=='Sub': t=a.t-b.t; lo=a.lo-b.hi; hi=a.hi-b.lo
            else:
                if a.const() is None and b.const() is None: raise Exception('nonlinear mul')
                t=a.t*b.t; c=[a.lo*b.lo,a.lo*b.hi,a.hi*b.lo,a.hi*b.hi]; lo=min(c);hi=max(c)
            if a.const() is not None and b.const() is not None:
                t=z3.IntVal(lo)
            tlo,thi=ty_range(ty)
            if op.endswith('WithOverflow'):
                if lo>=tlo and hi<=thi: ovf=mk_bool(False)
                elif hi<tlo or lo>thi: ovf=mk_bool(True)
                else: ovf=BV(z3.Or(t<tlo,t>thi))
                return Agg([wrap(ctx,t,lo,hi,ty),ovf])
            return wrap(ctx,t,lo,hi,ty)
        if op in('Div','Rem'):
            c=b.const()
            if c is None or c<=0: raise Exception('div by non-const/nonpositive')
            if a.const() is not None:
                x=a.const(); q=abs(x)//c*(1 if x>=0 else -1); r=x-q*c
                return mk_int(q if op=='Div' else r,ty)
            q,r,qlo,qhi=fdiv(ctx,a,c)
            if a.lo>=0:
                return IV(q,ty,qlo,qhi) if op=='Div' else IV(r,ty,0,min(c-1,a.hi))
            adj=z3.And(a.t<0,r!=0)
            if op=='Div': return IV(z3.If(adj,q+1,q),ty,qlo,qhi+1 if a.hi<0 else max(qhi,0))
            return IV(z3.If(adj,r-c,r),ty,-(c-1),c-1 if a.hi>=0 else 0)
        raise Exception('binop '+op)
    def cast(self,v,ty):
        if isinstance(v,BV): return IV(z3.If(v.t,1,0),ty,0,1) if v.c is None else mk_int(int(v.c),ty)
        return wrap(self.ctx,v.t,v.lo,v.hi,ty)
    def rvalue(self,frame,s):
        s=s.strip()
        m=re.match(r'^(\w+)\((.*)\)$',s)
        if m and m.group(1) in ('Add','Sub','Mul','Div','Rem','Eq','Ne','Lt','Le','Gt','Ge','BitAnd','BitOr','BitXor','AddWithOverflow','SubWithOverflow','MulWithOverflow'):
            a,b=[self.operand(frame,x) for x in split_top(m.group(2))]
            return self.binop(m.group(1),a,b)
        if m and m.group(1)=='Not':
            a=self.operand(frame,m.group(2))
            if a.c is not None: return mk_bool(not a.c)
            return BV(z3.Not(a.t))
        if m and m.group(1)=='Neg':
            a=self.operand(frame,m.group(2)); return wrap(self.ctx,-a.t,-a.hi,-a.lo,a.ty)
        if m and m.group(1)=='discriminant':
            v=self.read(frame,self.parse_place(m.group(2))); return v.disc
        m=re.match(r'^(.*) as (.+?) \((PointerCoercion.*|Transmute|PtrToPtr)\)$',s)
        if m: return self.operand(frame,m.group(1))
        m=re.match(r'^(.*) as ([\w]+) \((\w+)\)$',s)
        if m:
            return self.cast(self.operand(frame,m.group(1)),m.group(2))
        if s.startswith('&'):
            t=s[1:].strip()
            if t.startswith('mut '): t=t[4:]
            base,proj=self.parse_place(t)
            if proj and proj[0][0]=='deref':
                r=frame[base]; return Ref(r.frame,r.local,r.proj+proj[1:])
            return Ref(frame,base,proj)
        if s.startswith(('copy ','move ','const ','no_retag ')):
            return self.operand(frame,s)
        if s.startswith('(') :
            return Agg([self.operand(frame,x) for x in split_top(s[1:-1])])
        if s.startswith('['):
            return Agg([self.operand(frame,x) for x in split_top(s[1:-1])],'array')
        m=re.match(r'^(?:Result|std::result::Result)::<.*>::(Ok|Err)\((.*)\)$',s)
        if m: return En(mk_int(self.VARIANTS[m.group(1)],'isize'),{self.VARIANTS[m.group(1)]:[self.operand(frame,m.group(2))]})
        m=re.match(r'^(?:Option|std::option::Option)::<.*>::(Some)\((.*)\)$',s)
        if m: return En(mk_int(1,'isize'),{1:[self.operand(frame,m.group(2))]})
        m=re.match(r'^(?:Option|std::option::Option)::<.*>::None$',s)
        if m: return En(mk_int(0,'isize'),{0:[]})
        m=re.match(r'^(?:offset::)?Offset::(Fixed)\((.*)\)$',s)
        if m: return En(mk_int(0,'isize'),{0:[self.operand(frame,m.group(2))]})
        m=re.match(r'^\{closure@.*?\} \{(.*)\}$',s)
        if m:
            caps=[self.operand(frame,x.split(':',1)[1]) for x in split_top(m.group(1))] if m.group(1).strip() else []
            return Closure(None,caps)
        m=re.match(r'^([\w:]+) \{ (.*) \}$',s)
        if m:
            return Agg([self.operand(frame,x.split(':',1)[1]) for x in split_top(m.group(2))],'struct:'+m.group(1))
        m=re.match(r'^[\w:<>, ]+::(\w+)\((.*)\)$',s)
        if m and m.group(1) in self.VARIANTS:
            return En(mk_int(self.VARIANTS[m.group(1)],'isize'),{self.VARIANTS[m.group(1)]:[self.operand(frame,x) for x in split_top(m.group(2))]})
        if m: return Opaque('agg')
        raise Exception('rvalue? '+s)
    # ---- calls
    def call(self,callee,args,guard,site):
        """returns (value, returns_guard)"""
        ctx=self.ctx
        c=callee
        if c.startswith('core::panicking::') or c.startswith('std::rt::') or 'begin_panic' in c or c.startswith('core::result::unwrap_failed') or c.startswith('core::option::unwrap_failed'):
            ctx.panics.append((guard,site)); return None,z3.BoolVal(False)
        if c.endswith('verif_props::assume') or c=='assume':
            a=args[0]
            return UNIT, a.t
        m=re.match(r'^core::num::<impl (\w+)>::(\w+)$',c)
        if m:
            ty,fn=m.groups(); a=args[0]
            if fn=='unsigned_abs':
                uty='u'+ty[1:]
                return IV(z3.If(a.t>=0,a.t,-a.t),uty,0 if a.lo<=0<=a.hi else min(abs(a.lo),abs(a.hi)),max(abs(a.lo),abs(a.hi))),z3.BoolVal(True)
            if fn=='is_negative': return self.binop('Lt',a,mk_int(0,ty)),z3.BoolVal(True)
            if fn=='is_positive': return self.binop('Gt',a,mk_int(0,ty)),z3.BoolVal(True)
            if fn=='abs':
                ctx.panics.append((z3.And(guard,a.t==ty_range(ty)[0]),site+':abs'))
                return IV(z3.If(a.t>=0,a.t,-a.t),ty,0,max(abs(a.lo),abs(a.hi))),a.t!=ty_range(ty)[0]
        m=re.match(r'^<(\w+) as TryInto<(\w+)>>::try_into$',c)
        if m:
            a=args[0]; lo,hi=ty_range(m.group(2))
            ok=z3.And(a.t>=lo,a.t<=hi)
            if a.lo>=lo and a.hi<=hi: disc=mk_int(0,'isize')
            else: disc=IV(z3.If(ok,0,1),'isize',0,1)
            return En(disc,{0:[IV(a.t,m.group(2),max(a.lo,lo),min(a.hi,hi))],1:[Opaque('TryFromIntError')]}),z3.BoolVal(True)
        if re.match(r'^Result::<.*>::map_err::<',c):
            r=args[0]
            return En(r.disc,{0:r.v.get(0),1:[Opaque('mapped_err')]}),z3.BoolVal(True)
        if re.match(r'^<Result<.*> as Try>::branch$',c):
            r=args[0]   # Continue(v)=0 / Break(Result::Err(e))=1
            return En(r.disc,{0:r.v.get(0),1:[En(mk_int(1,'isize'),{1:r.v.get(1,[Opaque('e')])})]}),z3.BoolVal(True)
        if re.match(r'^<Result<.*> as FromResidual<.*>>::from_residual$',c):
            r=args[0]
            return En(mk_int(1,'isize'),{1:r.v.get(1,[Opaque('e')])}),z3.BoolVal(True)
        m=re.match(r'^Result::<.*>::(unwrap|expect|unwrap_or_else::<.*>)$',c)
        if m:
            r=args[0]
            isok=self.binop('Eq',r.disc,mk_int(0,'isize'))
            if isok.c is not True:
                ctx.panics.append((z3.And(guard,z3.Not(isok.t)),site+':unwrap'))
            return r.v[0][0],isok.t
        m=re.match(r'^core::slice::<impl \[(\w+)\]>::iter$',c)
        if m:
            a=args[0]
            arr=self.read(a.frame,(a.local,a.proj)) if isinstance(a,Ref) else a
            return ArrIter(arr,0),z3.BoolVal(True)
        if re.match(r'^<std::slice::Iter<.*> as IntoIterator>::into_iter$',c): return args[0],z3.BoolVal(True)
        if re.match(r'^<std::slice::Iter<.*> as Iterator>::next$',c):
            r=args[0]; it=self.read(r.frame,(r.local,r.proj))
            if it.idx<len(it.arr.f):
                # reference to element: materialize as Ref to a temp frame
                tmp={'e':it.arr.f[it.idx]}
                self.write(r.frame,(r.local,r.proj),ArrIter(it.arr,it.idx+1))
                return En(mk_int(1,'isize'),{1:[Ref(tmp,'e',[])]}),z3.BoolVal(True)
            return En(mk_int(0,'isize'),{0:[]}),z3.BoolVal(True)
        if c.startswith('core::fmt::') or c.startswith('Arguments::') or c=='format' or c.startswith('must_use') or 'to_string' in c or c.startswith('core::panicking'):
            return Opaque('fmt'),z3.BoolVal(True)
        if re.match(r'^<Offset as Default>::default$',c):
            return En(mk_int(0,'isize'),{0:[mk_int(0,'i32')]}),z3.BoolVal(True)
        if re.match(r'^std::collections::HashSet::<u8>::contains::<u8>$',c):
            st=args[0]; st=self.read(st.frame,(st.local,st.proj)) if isinstance(st,Ref) else st
            x=args[1]; x=self.read(x.frame,(x.local,x.proj))
            return BV(st.member(x)),z3.BoolVal(True)
        if re.match(r'^std::collections::HashSet::<u8>::len$',c):
            st=args[0]; st=self.read(st.frame,(st.local,st.proj)) if isinstance(st,Ref) else st
            return IV(z3.Sum([z3.If(st.bits[i],1,0) for i in range(0,64)]),'usize',0,64),z3.BoolVal(True)
        if re.match(r'^<std::collections::HashSet<u8> as Clone>::clone$',c):
            st=args[0]; return self.read(st.frame,(st.local,st.proj)),z3.BoolVal(True)
        if c.split('::')[-1]=='set_within':
            st=args[0]; st=self.read(st.frame,(st.local,st.proj)); lo=args[1].const(); hi=args[2].const()
            outside=[z3.Not(st.bits[i]) for i in range(64) if i<lo or i>hi]
            return BV(z3.And(z3.And(*outside),z3.Or(*[st.bits[i] for i in range(lo,hi+1)]))),z3.BoolVal(True)
        m=re.match(r'^core::num::<impl (\w+)>::(checked_add|checked_sub)$',c)
        if m:
            ty=m.group(1); a,b=args; lo,hi=ty_range(ty)
            t=a.t+b.t if m.group(2)=='checked_add' else a.t-b.t
            l,h=(a.lo+b.lo,a.hi+b.hi) if m.group(2)=='checked_add' else (a.lo-b.hi,a.hi-b.lo)
            ok=z3.And(t>=lo,t<=hi)
            disc=mk_int(1,'isize') if (l>=lo and h<=hi) else IV(z3.If(ok,1,0),'isize',0,1)
            return En(disc,{0:[],1:[IV(t,ty,max(l,lo),min(h,hi))]}),z3.BoolVal(True)
        if re.match(r'^Option::<.*>::ok_or_else::<',c):
            o=args[0]
            d=o.disc
            nd=mk_int(1-d.const(),'isize') if d.const() is not None else IV(1-d.t,'isize',0,1)
            return En(nd,{0:o.v.get(1),1:[Opaque('err')]}),z3.BoolVal(True)
        m=re.match(r'^<([iu](?:8|16|32|64|128|size)) as Default>::default$',c)
        if m: return mk_int(0,m.group(1)),z3.BoolVal(True)
        if re.match(r'^<(?:[\w:]*::)?Offset as Default>::default$',c):
            return En(mk_int(0,'isize'),{0:[mk_int(0,'i32')]}),z3.BoolVal(True)
        if re.match(r'^Option::<.*>::unwrap_or$',c):
            o,dflt=args
            if o.disc.const()==1: return o.v[1][0],z3.BoolVal(True)
            if o.disc.const()==0: return dflt,z3.BoolVal(True)
            return merge(BV(o.disc.t==1),o.v[1][0],dflt),z3.BoolVal(True)
        if re.match(r'^Option::<.*>::unwrap$',c):
            o=args[0]
            if o.disc.const()==1: return o.v[1][0],z3.BoolVal(True)
            ctx.panics.append((z3.And(guard,o.disc.t!=1),site+':unwrap none'))
            return o.v[1][0],o.disc.t==1
        if re.match(r'^(?:datetime::)?DateTime::now$',c):
            d=ctx.fresh('nowd'); n=ctx.fresh('nown'); ctx.side+=[d>=719162,d<=2**31-1,n>=0,n<86400*10**9]
            return Agg([IV(d,'i32',719162,2**31-1),IV(n,'u64',0,86400*10**9-1),En(mk_int(0,'isize'),{0:[mk_int(0,'i32')]})],'struct'),z3.BoolVal(True)
        m=re.match(r'^<(?:[\w:]*::)?(\w+) as PartialOrd>::(ge|gt|le|lt)$',c)
        if m:
            pc=self.impl[(m.group(1),'PartialOrd','partial_cmp')]
            o,rg=self.call_body(self.fns[pc],args,guard)
            ordv=o.v[1][0]
            t={'ge':ordv.t>=0,'gt':ordv.t>0,'le':ordv.t<=0,'lt':ordv.t<0}[m.group(2)]
            return BV(t),rg
        if re.match(r'^<i128 as Ord>::cmp$',c) or re.match(r'^<\w+ as Ord>::cmp$',c) and c[1] in 'iu':
            a=self.read(args[0].frame,(args[0].local,args[0].proj)); b=self.read(args[1].frame,(args[1].local,args[1].proj))
            return IV(z3.If(a.t<b.t,-1,z3.If(a.t==b.t,0,1)),'i8',-1,1),z3.BoolVal(True)
        name=self.resolve(c)
        if name and name.split('::')[-1]=='days_to_date' and __import__('os').environ.get('ABSTRACT_D2D') and not getattr(self,'in_d2d_contract',False):
            d=args[0]; key=d.t.get_id()
            if not hasattr(self,'d2dmemo'): self.d2dmemo={}
            if key not in self.d2dmemo:
                I=z3.IntSort(); Dy=z3.Function('D2D_y',I,I); Dm=z3.Function('D2D_m',I,I); Dd=z3.Function('D2D_d',I,I)
                y=IV(Dy(d.t),'i32',-5879611,5879611); mth=IV(Dm(d.t),'u32',1,12); dd=IV(Dd(d.t),'u32',1,31)
                ctx.side+=[y.t>=y.lo,y.t<=y.hi,mth.t>=1,mth.t<=12,dd.t>=1,dd.t<=31]
                cf=self.fns[[n for n in self.fns if n.split('::')[-1]=='contract_days_to_date'][0]]
                self.in_d2d_contract=True; saved=ctx.cur_guard; np=len(ctx.panics)
                holds,rg=self.call_body(cf,[d,y,mth,dd],z3.BoolVal(True))
                self.in_d2d_contract=False; ctx.cur_guard=saved
                del ctx.panics[np:]      # overflow checks inside the spec are discharged separately (oracle sanity)
                ctx.side.append(z3.And(rg,holds.t))
                self.d2dmemo[key]=Agg([y,mth,dd])
            return self.d2dmemo[key],z3.BoolVal(True)
        if name and 'datetime::<impl' in name and __import__('os').environ.get('ABSTRACT_DT') and not getattr(self,'in_contract',False):
            meth=name.split('::')[-1]
            cname='contract_dt_'+meth
            cands=[n for n in self.fns if n.split('::')[-1]==cname]
            if cands:
                selfv=self.deref_dt(args[0]); d,n_,offe=selfv.f[0],selfv.f[1],selfv.f[2]
                off=offe.v[0][0]
                extra=list(args[1:])
                cf=self.fns[cands[0]]
                rty=self.fns[name].ret
                I=z3.IntSort(); key=[d.t,n_.t,off.t]+[e.t for e in extra]
                def UF(nm): return z3.Function('C_%s_%s'%(meth,nm),*([I]*(len(key)+1)))(*key)
                if 'DateTime' in rty:
                    rd=IV(UF('d'),'i32',-2**31,2**31-1); rn=IV(UF('n'),'u64',0,86400*10**9-1)
                    ctx.side+=[rd.t>=rd.lo,rd.t<=rd.hi,rn.t>=0,rn.t<=rn.hi]
                    res=[rd,rn]; out=Agg([rd,rn,offe],selfv.kind)
                else:
                    hi={'month':12,'day':31,'weekday':6,'hour':23,'minute':59}[meth]
                    r=IV(UF('r'),'u8' if meth=='weekday' else 'u32',0,hi); ctx.side+=[r.t>=0,r.t<=hi]
                    res=[r]; out=r
                self.in_contract=True; saved=ctx.cur_guard; np=len(ctx.panics)
                self.in_contract_allow_d2d=True
                holds,rg=self.call_body(cf,[d,n_,off]+extra+res,z3.BoolVal(True))
                self.in_contract=False; ctx.cur_guard=saved
                del ctx.panics[np:]
                ctx.side.append(z3.Implies(guard,z3.And(rg,holds.t)))
                return out,z3.BoolVal(True)
        if name is None: raise Exception('unmodelled callee: '+c)
        return self.call_body(self.fns[name],args,guard)
    def rpo(self,f):
        if hasattr(f,'rpo_idx'): return f.rpo_idx
        succ={}
        for b,st in f.blocks.items():
            term=st[-1]
            tg=re.findall(r'(?:return: |success: |\d+: |otherwise: |goto -> |-> )(bb\d+)',term)
            # exclude unwind targets
            uw=re.findall(r'unwind: (bb\d+)',term)
            succ[b]=[t for t in tg if t not in uw]
        order=[];seen=set()
        def dfs(b):
            seen.add(b)
            for t in succ.get(b,[]):
                if t not in seen: dfs(t)
            order.append(b)
        sys.setrecursionlimit(10000)
        dfs('bb0'); order.reverse()
        f.rpo_idx={b:i for i,b in enumerate(order)}
        return f.rpo_idx
    def loops(self,f):
        if hasattr(f,'loopinfo'): return f.loopinfo
        rpo=self.rpo(f); succ={}; pred={}
        for b,st in f.blocks.items():
            if b not in rpo: continue
            term=st[-1]
            tg=re.findall(r'(?:return: |success: |\d+: |otherwise: |goto -> |-> )(bb\d+)',term)
            uw=re.findall(r'unwind: (bb\d+)',term)
            succ[b]=[t for t in tg if t not in uw and t in rpo]
            for t in succ[b]: pred.setdefault(t,[]).append(b)
        member={}
        for b in succ:
            for t in succ[b]:
                if rpo[t]<=rpo[b]:   # back edge b->t
                    body={t}; stack=[b]
                    while stack:
                        x=stack.pop()
                        if x in body: continue
                        body.add(x); stack+=pred.get(x,[])
                    for x in body:
                        if x in member and member[x]!=t: raise Exception('nested loops unsupported in spike')
                        member[x]=t
        f.loopinfo={'member':member}
        return f.loopinfo
    def view(self,st,v):
        if isinstance(v,IV) and st['__ref']:
            r=st['__ref'].get(v.t.get_id())
            if r:
                lo=max(v.lo,r[0]); hi=min(v.hi,r[1])
                if (lo,hi)!=(v.lo,v.hi): return IV(v.t,v.ty,lo,hi)
        return v
    def refine_branch(self,st,bv,truth):
        cmpi=getattr(bv,'cmp',None)
        if not cmpi: return
        op,a,b=cmpi
        if not truth: op={'Lt':'Ge','Ge':'Lt','Le':'Gt','Gt':'Le','Eq':'Ne','Ne':'Eq'}[op]
        st['__ref']=dict(st['__ref'])
        def tighten(x,lo,hi):
            k=x.t.get_id(); cur=st['__ref'].get(k,(x.lo,x.hi))
            st['__ref'][k]=(max(cur[0],lo if lo is not None else cur[0]),min(cur[1],hi if hi is not None else cur[1]))
        if b.const() is not None:
            c=b.const()
            if op=='Lt': tighten(a,None,c-1)
            elif op=='Le': tighten(a,None,c)
            elif op=='Gt': tighten(a,c+1,None)
            elif op=='Ge': tighten(a,c,None)
            elif op=='Eq': tighten(a,c,c)
        elif a.const() is not None:
            c=a.const()
            if op=='Lt': tighten(b,c+1,None)
            elif op=='Le': tighten(b,c,None)
            elif op=='Gt': tighten(b,None,c-1)
            elif op=='Ge': tighten(b,None,c)
            elif op=='Eq': tighten(b,c,c)
    def merge_states(self,states):
        if len(states)==1: return states[0]
        g0,e0=states[0]
        for g1,e1 in states[1:]:
            e={}
            for k in set(e0)|set(e1):
                if k.startswith('__'): continue
                a=e1.get(k); b=e0.get(k)
                if a is None: e[k]=b
                elif b is None: e[k]=a
                else:
                    try: e[k]=merge(BV(g1),self.view(e1,a),self.view(e0,b))
                    except Exception as ex:
                        e[k]=None
            e['__fn']=e0['__fn']; e['__ref']={}
            g0=z3.Or(g0,g1); e0=e
        return g0,e0
    def call_body(self,f,args,guard):
        self.depth+=1
        frame={'__fn':f.name,'__ref':{}}
        for p,a in zip(f.params,args): frame[p]=a
        rpo=self.rpo(f)
        loops=self.loops(f)
        K=self.unwind if f.name.endswith('::next') else 16
        def key(bi):
            b,it=bi
            h=loops['member'].get(b)
            return (rpo[h],it,rpo.get(b,10**9)) if h else (rpo.get(b,10**9),0,0)
        pending={('bb0',0):[(guard,frame)]}
        outs=[]
        steps=0
        while pending:
            bbi=min(pending,key=key)
            g,fr=self.merge_states(pending.pop(bbi))
            bb,cur_it=bbi
            def go(t,gg,ff,bb=bb,cur_it=cur_it):
                h=loops['member'].get(t)
                if h is None: it=0
                elif t==h and loops['member'].get(bb)==h and rpo[bb]>=rpo[t]: it=cur_it+1     # back edge
                elif loops['member'].get(bb)==h: it=cur_it
                else: it=0
                if it>K:
                    self.ctx.unwound.append((gg,f.name+':'+bb+'->'+t)); return
                pending.setdefault((t,it),[]).append((gg,ff))
            steps+=1
            if steps>5000: raise Exception('step limit in '+f.name)
            stmts=f.blocks[bb]
            self.ctx.cur_guard=g
            for s in stmts[:-1]:
                self.stmt(fr,s)
            term=stmts[-1].rstrip(';')
            site='%s:%s'%(f.name,bb)
            if term.startswith('goto -> '): go(term[8:],g,fr); continue
            if term=='return': outs.append((g,fr)); continue
            if term=='unreachable': continue
            m=re.match(r'^switchInt\((.*)\) -> \[(.*)\]$',term)
            if m:
                v=self.operand(fr,m.group(1)); arms=[x.split(': ') for x in split_top(m.group(2))]
                if isinstance(v,BV):
                    if v.c is not None:
                        tgt=[t for k,t in arms if k!='otherwise' and int(k)==int(v.c)]
                        go(tgt[0] if tgt else [t for k,t in arms if k=='otherwise'][0],g,fr); continue
                    iv=IV(z3.If(v.t,1,0),'u8',0,1)
                else: iv=v
                cv=iv.const()
                if cv is not None:
                    tgt=[t for k,t in arms if k!='otherwise' and int(k)==cv]
                    go(tgt[0] if tgt else [t for k,t in arms if k=='otherwise'][0],g,fr); continue
                conds=[]
                keys=[int(k) for k,_ in arms if k!='otherwise']
                for k,t in arms:
                    if k=='otherwise':
                        rest=[kk for kk in keys if iv.lo<=kk<=iv.hi]
                        if iv.hi-iv.lo+1==len(rest): continue   # all values covered
                        if isinstance(v,BV): conds.append((z3.Not(v.t) if 1 in keys else v.t,t,(v,0 in keys)))
                        else: conds.append((z3.And(*[iv.t!=kk for kk in rest]) if rest else z3.BoolVal(True),t,None))
                        continue
                    kk=int(k)
                    if kk<iv.lo or kk>iv.hi: continue
                    if isinstance(v,BV): conds.append((v.t if kk==1 else z3.Not(v.t),t,(v,kk==1)))
                    else: conds.append((iv.t==kk,t,None))
                for cnd,t,rf in conds:
                    ff=dict(fr)
                    if rf: self.refine_branch(ff,rf[0],rf[1])
                    go(t,z3.And(g,cnd),ff)
                continue
            m=re.match(r'^assert\((!?)(.*?), "(.*?)".*\) -> \[success: (bb\d+), unwind.*\]$',term)
            if m:
                c=self.operand(fr,m.group(2))
                bad = c if m.group(1)=='!' else BV(z3.Not(c.t),None if c.c is None else (not c.c))
                if bad.c is True: self.ctx.panics.append((g,site+':'+m.group(3)[:30])); continue
                if bad.c is None:
                    self.ctx.panics.append((z3.And(g,bad.t),site+':'+m.group(3)[:30])); g=z3.And(g,z3.Not(bad.t))
                go(m.group(4),g,fr); continue
            m=re.match(r'^drop\(.*\) -> \[return: (bb\d+), unwind.*\]$',term)
            if m: go(m.group(1),g,fr); continue
            m=re.match(r'^(?:(.*?) = )?(.*?)\((.*)\) -> (?:\[return: (bb\d+), unwind.*\]|unwind.*|bb\d+)$',term)
            if m:
                dest,callee,argstr,ret=m.groups()
                callee,argstr=self.split_call(term)
                cargs=[self.operand(fr,a) for a in split_top(argstr)]
                val,rg=self.call(callee,cargs,g,site)
                self.ctx.cur_guard=g
                if ret is None or (z3.is_false(rg)): continue
                if not z3.is_true(rg): g=z3.And(g,rg)
                if dest: self.write(fr,self.parse_place(dest),val)
                go(ret,g,fr); continue
            raise Exception('terminator? '+term)
        self.depth-=1
        if not outs: return None,z3.BoolVal(False)
        g,fr=self.merge_states(outs)
        return self.view(fr,fr.get('_0',UNIT)),g
    def deref_dt(self,v):
        while isinstance(v,Ref): v=self.read(v.frame,(v.local,v.proj))
        return v
    def split_call(self,term):
        # term: [dest = ]callee(args) -> ...
        t=term
        if ' = ' in t.split('(')[0]: t=t.split(' = ',1)[1]
        t=t[:t.rindex(') -> ')+1]
        # find matching '(' of last ')'
        d=0
        for i in range(len(t)-1,-1,-1):
            if t[i]==')': d+=1
            elif t[i]=='(':
                d-=1
                if d==0: return t[:i],t[i+1:-1]
        raise Exception('call split')
    def fork(self,fr):
        return dict(fr)
    def stmt(self,fr,s):
        s=s.rstrip(';')
        if s.startswith(('StorageLive','StorageDead','nop','FakeRead','PlaceMention','AscribeUserType','Retag','Coverage','ConstEvalCounter')): return
        lhs,rhs=s.split(' = ',1)
        self.write(fr,self.parse_place(lhs),self.rvalue(fr,rhs))

def build_impl_index(fns,srcroot):
    idx={}
    for n in fns:
        m=re.match(r'^(.*)<impl at (src/[\w/\.]+):(\d+):(\d+): \d+:(\d+)>::(\w+)$',n)
        if not m: continue
        lines=open(srcroot+'/'+m.group(2)).read().split('\n'); line=lines[int(m.group(3))-1]
        if line.lstrip().startswith('#[derive'):
            tr=line[int(m.group(4))-1:int(m.group(5))-1]
            for l2 in lines[int(m.group(3)):int(m.group(3))+6]:
                mm=re.match(r'^\s*(?:pub(?:\([\w]+\))? )?(?:struct|enum) (\w+)',l2)
                if mm: idx[(mm.group(1),tr,m.group(6))]=n; break
            continue
        m=re.match(r'^(.*)<impl at (src/[\w/\.]+):(\d+):\d+: \d+:\d+>::(\w+)$',n)
        mm=re.match(r'^impl(?:<.*?>)? (?:(\w+)(?:<.*>)? for )?&?(\w+)',line)
        if mm: idx[(mm.group(2),mm.group(1),m.group(4))]=n
    return idx

def run(prop,mirfile,srcroot,argspecs,timeout=600):
    fns,consts=parse_mir(open(mirfile).read())
    ctx=Ctx(); ex=Exec(fns,consts,ctx,build_impl_index(fns,srcroot))
    f=fns[[n for n in fns if n.split('::')[-1]==prop][0]]
    args=[]; dom=[]
    for p in f.params:
        ty=f.locals[p]
        if 'HashSet' in ty:
            args.append(SetV(z3.Array('set'+p,z3.IntSort(),z3.BoolSort()),'set'+p)); continue
        if ty=='bool':
            args.append(BV(z3.Bool('arg'+p))); continue
        lo,hi=ty_range(ty)
        if p in argspecs: lo,hi=argspecs[p]
        v=z3.Int('arg'+p); args.append(IV(v,ty,lo,hi)); dom+= [v>=lo,v<=hi]
    t0=time.time()
    val,rg=ex.call_body(f,args,z3.BoolVal(True))
    t1=time.time()
    s=z3.Solver(); s.set('timeout',timeout*1000)
    s.add(*dom); s.add(*ctx.side)
    s.add(z3.Or(*[g for g,_ in ctx.panics]) if ctx.panics else z3.BoolVal(False))
    if __import__('os').environ.get('SMTOUT'):
        s3=z3.Solver(); s3.add(*dom); s3.add(*ctx.side); s3.add(z3.Or(*[g for g,_ in ctx.panics]))
        open(__import__('os').environ['SMTOUT'],'w').write('(set-logic ALL)\n'+s3.sexpr()+'\n(check-sat)\n'); print('  wrote smt2'); return
    if __import__('os').environ.get('VACUITY'):
        s2=z3.Solver(); s2.add(*dom); s2.add(*ctx.side); s2.add(rg); rv=s2.check(); print('  vacuity witness (end reachable):',rv)
        if rv==z3.sat:
            mm=s2.model(); print('   e.g.',{str(a.t):mm.eval(a.t) for a in args if isinstance(a,IV)})
    r=s.check(); t2=time.time()
    print('%s: symex %.2fs, %d panic sites, %d side constraints, %d unwound-cut states; solver: %s in %.2fs'%(prop,t1-t0,len(ctx.panics),len(ctx.side),len(ctx.unwound),r,t2-t1))
    print('  unwound at:',sorted(set(x for _,x in ctx.unwound))[:10])
    if r==z3.sat:
        m=s.model()
        print('  counterexample:',{str(a.t):m.eval(a.t) for a in args if isinstance(a,IV)})
        for a in args:
            if isinstance(a,SetV): print('   set',a.arr,[i for i in range(64) if z3.is_true(m.eval(a.bits[i],model_completion=True))])
        for g,site in ctx.panics:
            if z3.is_true(m.eval(g,model_completion=True)): print('  panic site:',site)
    return r

if __name__=='__main__':
    prop=sys.argv[1]
    spec={}
    for a in sys.argv[2:]:
        k,lo,hi=a.split(','); spec[k]=(int(lo),int(hi))
    run(prop,__import__('os').environ.get('MIR','/tmp/mspike/mir_on.txt'),'/tmp/mspike',spec)
