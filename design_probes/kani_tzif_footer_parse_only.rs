#[cfg(kani)]
mod verif_tz {
    use crate::local::timezone::TimeZone;
    pub fn fmt_stub(_args: std::fmt::Arguments<'_>) -> String { String::new() }
    fn v3_footer_file(footer: &[u8]) -> Vec<u8> {
        let mut v = Vec::with_capacity(128);
        let mut h = [0u8; 44]; h[0]=b'T'; h[1]=b'Z'; h[2]=b'i'; h[3]=b'f'; h[4]=b'3';
        v.extend_from_slice(&h); v.extend_from_slice(&h); v.extend_from_slice(footer); v
    }
    fn digit() -> u8 { let d: u8 = kani::any(); kani::assume(d >= b'0' && d <= b'9'); d }

    // parse only: footer M-rule with arbitrary digits parses (Ok or Err), never panics
    #[kani::proof]
    #[kani::unwind(40)]
    #[kani::stub(alloc::fmt::format, fmt_stub)]
    fn tz_footer_parse_only() {
        let f = [b'\n', b'A', b'1', b'B', b',', b'M', digit(), b'.', digit(), b'.', digit(), b',', b'M', b'1', b'0', b'.', b'5', b'.', b'0', b'\n'];
        let file = v3_footer_file(&f);
        let r = TimeZone::from_tzif(&file);
        kani::cover!(r.is_ok());
    }
    // parse only: 12 fully symbolic footer bytes between the newlines
    #[kani::proof]
    #[kani::unwind(40)]
    #[kani::stub(alloc::fmt::format, fmt_stub)]
    fn tz_footer_parse_any12() {
        let b: [u8; 12] = kani::any();
        let mut f = [0u8; 14]; f[0] = b'\n'; f[13] = b'\n';
        let mut i = 0; while i < 12 { f[i+1] = b[i]; i += 1; }
        let file = v3_footer_file(&f);
        let _ = TimeZone::from_tzif(&file);
    }
}
