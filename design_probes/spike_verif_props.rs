//! property functions (spike)
use crate::util::date::convert::*;
use crate::util::time::convert::*;
use crate::{DateTime, Offset, TimeUtilities};

#[inline(never)]
pub fn assume(c: bool) { if !c { loop {} } }

fn spec_is_leap(y: i32) -> bool { let a = if y < 0 { y + 1 } else { y }; a % 4 == 0 && (a % 100 != 0 || a % 400 == 0) }
fn spec_mdays(y: i32, m: u32) -> u32 { match m { 2 => if spec_is_leap(y) {29} else {28}, 4|6|9|11 => 30, _ => 31 } }
fn spec_floor_div(a: i64, c: i64) -> i64 { let q = a / c; if a % c < 0 { q - 1 } else { q } }
/// Rata Die: days since 0001-01-01 (=0) of a valid proleptic Gregorian date, historical year numbering (no year 0)
fn spec_rd(y: i32, m: u32, d: u32) -> i64 {
    let yy: i64 = if y > 0 { y as i64 } else { y as i64 + 1 };
    let p = yy - 1;
    let leaps = spec_floor_div(p, 4) - spec_floor_div(p, 100) + spec_floor_div(p, 400);
    let cum: i64 = match m { 1=>0, 2=>31, 3=>59, 4=>90, 5=>120, 6=>151, 7=>181, 8=>212, 9=>243, 10=>273, 11=>304, _=>334 };
    let l: i64 = if m > 2 && spec_is_leap(y) { 1 } else { 0 };
    365 * p + leaps + cum + l + d as i64 - 1
}

pub fn prop_c01_days_to_date(d: i32) {
    let (y, m, dd) = days_to_date(d);
    assert!(y != 0 && m >= 1 && m <= 12 && dd >= 1 && dd <= spec_mdays(y, m));
    assert!(spec_rd(y, m, dd) == d as i64);
}

pub fn prop_c03_nanos_split(t: i128) {
    const NPD: i128 = 86_400_000_000_000;
    match nanos_to_days_nanos(t) {
        Ok((d, n)) => { assert!((n as i128) < NPD); assert!(d as i128 * NPD + n as i128 == t); }
        Err(_) => { assert!(t < (i32::MIN as i128) * NPD || t >= (i32::MAX as i128 + 1) * NPD); }
    }
}

pub fn prop_c04_add_hours_exact(days: i32, nanos: u64, h: u32) {
    const NPD: i128 = 86_400_000_000_000;
    assume(nanos < 86_400_000_000_000);
    let dt = DateTime { days, nanoseconds: nanos, offset: Offset::Fixed(0) };
    let target = days as i128 * NPD + nanos as i128 + h as i128 * 3_600_000_000_000;
    assume(target < (i32::MAX as i128 + 1) * NPD);
    let r = dt.add_hours(h);
    assert!(r.days as i128 * NPD + r.nanoseconds as i128 == target);
}

use crate::util::date::manipulate::{add_months, sub_months};
fn spec_in_range(y: i32, m: u32, d: u32) -> bool {
    // -5879611-06-23 ..= 5879611-07-12
    let lo = (y > -5_879_611) || (y == -5_879_611 && (m > 6 || (m == 6 && d >= 23)));
    let hi = (y < 5_879_611) || (y == 5_879_611 && (m < 7 || (m == 7 && d <= 12)));
    lo && hi
}
pub fn prop_c05_add_months(d: i32, n: u32) {
    let (y, m, dd) = days_to_date(d);
    let yy: i64 = if y > 0 { y as i64 } else { y as i64 + 1 };
    let total = yy * 12 + (m as i64 - 1) + n as i64;
    let ty = spec_floor_div(total, 12);
    let tm = (total - ty * 12 + 1) as u32;
    let hy64 = if ty <= 0 { ty - 1 } else { ty };
    assume(hy64 >= -5_879_612 && hy64 <= 5_879_612);
    let hy = hy64 as i32;
    let md = spec_mdays(hy, tm);
    let td = if dd > md { md } else { dd };
    assume(spec_in_range(hy, tm, td));
    match add_months(d, n) {
        Ok(k) => { assert!(k as i64 == spec_rd(hy, tm, td)); }
        Err(_) => { assert!(false); }
    }
}

pub fn prop_c07_antisym(a: i32, b: i32) {
    let x = months_between(a, 0, b, 0);
    let y = months_between(b, 0, a, 0);
    assert!(x == -y);
}
pub fn prop_c07_years_antisym(a: i32, b: i32) {
    let x = years_between(a, 0, b, 0);
    let y = years_between(b, 0, a, 0);
    assert!(x == -y);
}
