//! property functions (spike)
use crate::util::date::convert::*;
use crate::util::time::convert::*;
use crate::{DateTime, Offset, TimeUtilities};

#[inline(never)]
pub fn assume(c: bool) { if !c { loop {} } }

fn spec_is_leap(y: i32) -> bool { let a = if y < 0 { y + 1 } else { y }; a % 4 == 0 && (a % 100 != 0 || a % 400 == 0) }
fn spec_mdays(y: i32, m: u32) -> u32 { match m { 2 => if spec_is_leap(y) {29} else {28}, 4|6|9|11 => 30, _ => 31 } }
fn spec_floor_div(a: i64, c: i64) -> i64 { let q = a / c; if a % c < 0 { q - 1 } else { q } }
/// Rata Die: days since 0001-01-01 (=0) of a valid proleptic Gregorian date, historical year numbering (no year 0)
fn spec_rd(y: i32, m: u32, d: u32) -> i64 {
    let yy: i64 = if y > 0 { y as i64 } else { y as i64 + 1 };
    let p = yy - 1;
    let leaps = spec_floor_div(p, 4) - spec_floor_div(p, 100) + spec_floor_div(p, 400);
    let cum: i64 = match m { 1=>0, 2=>31, 3=>59, 4=>90, 5=>120, 6=>151, 7=>181, 8=>212, 9=>243, 10=>273, 11=>304, _=>334 };
    let l: i64 = if m > 2 && spec_is_leap(y) { 1 } else { 0 };
    365 * p + leaps + cum + l + d as i64 - 1
}

pub fn prop_c01_days_to_date(d: i32) {
    let (y, m, dd) = days_to_date(d);
    assert!(y != 0 && m >= 1 && m <= 12 && dd >= 1 && dd <= spec_mdays(y, m));
    assert!(spec_rd(y, m, dd) == d as i64);
}

pub fn prop_c03_nanos_split(t: i128) {
    const NPD: i128 = 86_400_000_000_000;
    match nanos_to_days_nanos(t) {
        Ok((d, n)) => { assert!((n as i128) < NPD); assert!(d as i128 * NPD + n as i128 == t); }
        Err(_) => { assert!(t < (i32::MIN as i128) * NPD || t >= (i32::MAX as i128 + 1) * NPD); }
    }
}

pub fn prop_c04_add_hours_exact(days: i32, nanos: u64, h: u32) {
    const NPD: i128 = 86_400_000_000_000;
    assume(nanos < 86_400_000_000_000);
    let dt = DateTime { days, nanoseconds: nanos, offset: Offset::Fixed(0) };
    let target = days as i128 * NPD + nanos as i128 + h as i128 * 3_600_000_000_000;
    assume(target < (i32::MAX as i128 + 1) * NPD);
    let r = dt.add_hours(h);
    assert!(r.days as i128 * NPD + r.nanoseconds as i128 == target);
}

use crate::util::date::manipulate::{add_months, sub_months};
fn spec_in_range(y: i32, m: u32, d: u32) -> bool {
    // -5879611-06-23 ..= 5879611-07-12
    let lo = (y > -5_879_611) || (y == -5_879_611 && (m > 6 || (m == 6 && d >= 23)));
    let hi = (y < 5_879_611) || (y == 5_879_611 && (m < 7 || (m == 7 && d <= 12)));
    lo && hi
}
pub fn prop_c05_add_months(d: i32, n: u32) {
    let (y, m, dd) = days_to_date(d);
    let yy: i64 = if y > 0 { y as i64 } else { y as i64 + 1 };
    let total = yy * 12 + (m as i64 - 1) + n as i64;
    let ty = spec_floor_div(total, 12);
    let tm = (total - ty * 12 + 1) as u32;
    let hy64 = if ty <= 0 { ty - 1 } else { ty };
    assume(hy64 >= -5_879_612 && hy64 <= 5_879_612);
    let hy = hy64 as i32;
    let md = spec_mdays(hy, tm);
    let td = if dd > md { md } else { dd };
    assume(spec_in_range(hy, tm, td));
    match add_months(d, n) {
        Ok(k) => { assert!(k as i64 == spec_rd(hy, tm, td)); }
        Err(_) => { assert!(false); }
    }
}

pub fn prop_c07_antisym(a: i32, b: i32) {
    let x = months_between(a, 0, b, 0);
    let y = months_between(b, 0, a, 0);
    assert!(x == -y);
}
pub fn prop_c07_years_antisym(a: i32, b: i32) {
    let x = years_between(a, 0, b, 0);
    let y = years_between(b, 0, a, 0);
    assert!(x == -y);
}

pub fn prop_c14_rfc3339_nopanic(s: &str) {
    if let Ok(dt) = DateTime::parse_rfc3339(s) {
        assert!(dt.nanoseconds < 86_400_000_000_000);
    }
}

/// contract of days_to_date, proven by C01 obligation (1); exact because spec_rd is injective on valid triples
pub fn contract_days_to_date(d: i32, y: i32, m: u32, dd: u32) -> bool {
    y != 0 && m >= 1 && m <= 12 && dd >= 1 && dd <= spec_mdays(y, m) && spec_rd(y, m, dd) == d as i64
}

use crate::DateUtilities;
pub fn prop_probe_getters(days: i32, secs: u32) {
    assume(secs < 86_400);
    let now = DateTime { days, nanoseconds: secs as u64 * 1_000_000_000, offset: Offset::Fixed(0) };
    let n = now.clear_until_second().add_minutes(1);
    let (mo, d, wd, h, mi) = (n.month(), n.day(), n.weekday(), n.hour(), n.minute());
    assert!(mo >= 1 && mo <= 12 && d >= 1 && d <= 31 && wd <= 6 && h <= 23 && mi <= 59);
    let j = n.add_days(1).clear_until_hour();
    assert!(j.nanoseconds == 0 && j.days == n.days + 1);
}

pub fn prop_probe_a(days: i32, secs: u32) {
    assume(secs < 86_400);
    let now = DateTime { days, nanoseconds: secs as u64 * 1_000_000_000, offset: Offset::Fixed(0) };
    let n = now.clear_until_second();
    assert!(n.days == days && n.nanoseconds == (secs / 60) as u64 * 60_000_000_000);
}
pub fn prop_probe_b(days: i32, secs: u32) {
    assume(secs < 86_400 && secs % 60 == 0);
    let now = DateTime { days, nanoseconds: secs as u64 * 1_000_000_000, offset: Offset::Fixed(0) };
    let n = now.add_minutes(1);
    assert!(n.days as i64 * 86_400 + (n.nanoseconds / 1_000_000_000) as i64 == days as i64 * 86_400 + secs as i64 + 60);
}
pub fn prop_probe_c(days: i32, secs: u32) {
    assume(secs < 86_400);
    let now = DateTime { days, nanoseconds: secs as u64 * 1_000_000_000, offset: Offset::Fixed(0) };
    assert!(now.hour() == secs / 3600 && now.minute() == secs / 60 % 60);
}
pub fn prop_probe_d(days: i32, secs: u32) {
    assume(secs < 86_400);
    let now = DateTime { days, nanoseconds: secs as u64 * 1_000_000_000, offset: Offset::Fixed(0) };
    let m = now.month();
    assert!(m >= 1 && m <= 12);
}

// ---- contracts of DateTime methods used by CronSchedule::next (each is an obligation of C04/C09/C10/C02)
const NPD_I: i128 = 86_400_000_000_000;
fn inst(d: i32, n: u64) -> i128 { d as i128 * NPD_I + n as i128 }
fn fdiv128(a: i128, c: i128) -> i128 { let q = a / c; if a % c < 0 { q - 1 } else { q } }
fn fmod128(a: i128, c: i128) -> i128 { a - fdiv128(a, c) * c }
fn local(d: i32, n: u64, off: i32) -> i128 { inst(d, n) + off as i128 * 1_000_000_000 }
pub fn contract_dt_add_minutes(d: i32, n: u64, off: i32, k: u32, rd: i32, rn: u64) -> bool { (rn as i128) < NPD_I && inst(rd, rn) == inst(d, n) + k as i128 * 60_000_000_000 }
pub fn contract_dt_add_hours(d: i32, n: u64, off: i32, k: u32, rd: i32, rn: u64) -> bool { (rn as i128) < NPD_I && inst(rd, rn) == inst(d, n) + k as i128 * 3_600_000_000_000 }
pub fn contract_dt_add_days(d: i32, n: u64, off: i32, k: u32, rd: i32, rn: u64) -> bool { rn == n && rd as i64 == d as i64 + k as i64 }
pub fn contract_dt_add_months(d: i32, n: u64, off: i32, k: u32, rd: i32, rn: u64) -> bool {
    let (y, m, dd) = days_to_date(d);
    let yy: i64 = if y > 0 { y as i64 } else { y as i64 + 1 };
    let total = yy * 12 + (m as i64 - 1) + k as i64;
    let ty = spec_floor_div(total, 12);
    let tm = (total - ty * 12 + 1) as u32;
    let hy = (if ty <= 0 { ty - 1 } else { ty }) as i32;
    let md = spec_mdays(hy, tm);
    let td = if dd > md { md } else { dd };
    rn == n && rd as i64 == spec_rd(hy, tm, td)
}
fn clear_to(d: i32, n: u64, off: i32, unit: i128, rd: i32, rn: u64) -> bool {
    let l = local(d, n, off);
    (rn as i128) < NPD_I && inst(rd, rn) == l - fmod128(l, unit) - off as i128 * 1_000_000_000
}
pub fn contract_dt_clear_until_second(d: i32, n: u64, off: i32, rd: i32, rn: u64) -> bool { clear_to(d, n, off, 60_000_000_000, rd, rn) }
pub fn contract_dt_clear_until_minute(d: i32, n: u64, off: i32, rd: i32, rn: u64) -> bool { clear_to(d, n, off, 3_600_000_000_000, rd, rn) }
pub fn contract_dt_clear_until_hour(d: i32, n: u64, off: i32, rd: i32, rn: u64) -> bool { clear_to(d, n, off, NPD_I, rd, rn) }
pub fn contract_dt_clear_until_day(d: i32, n: u64, off: i32, rd: i32, rn: u64) -> bool {
    // as implemented for offset 0 (the offset-aware version is C09's subject)
    let (y, m, _) = days_to_date(d);
    rn == 0 && rd as i64 == spec_rd(y, m, 1)
}
fn local_day(d: i32, n: u64, off: i32) -> i32 { fdiv128(local(d, n, off), NPD_I) as i32 }
pub fn contract_dt_month(d: i32, n: u64, off: i32, r: u32) -> bool { days_to_date(local_day(d, n, off)).1 == r }
pub fn contract_dt_day(d: i32, n: u64, off: i32, r: u32) -> bool { days_to_date(local_day(d, n, off)).2 == r }
pub fn contract_dt_weekday(d: i32, n: u64, off: i32, r: u8) -> bool { let ld = local_day(d, n, off) as i64; let w = ld - spec_floor_div(ld, 7) * 7; r as i64 == (w + 1) % 7 }
pub fn contract_dt_hour(d: i32, n: u64, off: i32, r: u32) -> bool { r as i128 == fdiv128(fmod128(local(d, n, off), NPD_I), 3_600_000_000_000) }
pub fn contract_dt_minute(d: i32, n: u64, off: i32, r: u32) -> bool { r as i128 == fdiv128(fmod128(local(d, n, off), 3_600_000_000_000), 60_000_000_000) }

fn whole_minute(days: i32, mins: u32) -> DateTime { DateTime { days, nanoseconds: mins as u64 * 60_000_000_000, offset: Offset::Fixed(0) } }
fn abs_min(t: &DateTime) -> i64 { t.days as i64 * 1440 + (t.nanoseconds / 60_000_000_000) as i64 }
pub fn prop_c17_jump_month(days: i32, mins: u32, wd: i32, wm: u32) {
    assume(mins < 1440 && wm < 1440);
    let n = whole_minute(days, mins);
    let j = n.add_months(1).clear_until_day();
    assert!(j.nanoseconds == 0 && abs_min(&j) > abs_min(&n));
    let w = whole_minute(wd, wm);
    assume(abs_min(&w) >= abs_min(&n) && abs_min(&w) < abs_min(&j));
    assert!(w.month() == n.month());
    assert!(j.day() == 1 && j.month() == if n.month() == 12 { 1 } else { n.month() + 1 });
}
pub fn prop_c17_jump_day(days: i32, mins: u32, wd: i32, wm: u32) {
    assume(mins < 1440 && wm < 1440);
    let n = whole_minute(days, mins);
    let j = n.add_days(1).clear_until_hour();
    assert!(j.nanoseconds == 0 && abs_min(&j) > abs_min(&n));
    let w = whole_minute(wd, wm);
    assume(abs_min(&w) >= abs_min(&n) && abs_min(&w) < abs_min(&j));
    assert!(w.day() == n.day() && w.weekday() == n.weekday() && w.month() == n.month());
}
pub fn prop_c17_jump_hour(days: i32, mins: u32, wd: i32, wm: u32) {
    assume(mins < 1440 && wm < 1440);
    let n = whole_minute(days, mins);
    let j = n.add_hours(1).clear_until_minute();
    assert!(j.nanoseconds % 3_600_000_000_000 == 0 && abs_min(&j) > abs_min(&n));
    let w = whole_minute(wd, wm);
    assume(abs_min(&w) >= abs_min(&n) && abs_min(&w) < abs_min(&j));
    assert!(w.hour() == n.hour() && w.day() == n.day() && w.month() == n.month());
}
pub fn prop_c17_jump_minute(days: i32, mins: u32) {
    assume(mins < 1440);
    let n = whole_minute(days, mins);
    let j = n.add_minutes(1).clear_until_second();
    assert!(j.nanoseconds % 60_000_000_000 == 0 && abs_min(&j) == abs_min(&n) + 1);
}

pub fn prop_c17_hour_progress(days: i32, mins: u32) {
    assume(mins < 1440);
    let n = whole_minute(days, mins);
    let j = n.add_hours(1).clear_until_minute();
    assert!(j.nanoseconds % 3_600_000_000_000 == 0 && abs_min(&j) > abs_min(&n) && abs_min(&j) <= abs_min(&n) + 60);
}
pub fn prop_c17_hour_witness(days: i32, mins: u32, wd: i32, wm: u32) {
    assume(mins < 1440 && wm < 1440);
    let n = whole_minute(days, mins);
    let w = whole_minute(wd, wm);
    // j characterised directly: the next whole hour after n
    let jm = (abs_min(&n) / 60 + 1) * 60;
    assume(abs_min(&w) >= abs_min(&n) && abs_min(&w) < jm);
    assert!(w.hour() == n.hour());
}
