"""Engine K: Kani/CBMC on the binary part of the TZif reader. One #[kani::proof] per shape (concrete header counts and
length, symbolic contents), run on a scratch copy of /repo; counterexamples are extracted with concrete playback and
replayed natively through the replay binary before they are reported."""
import os, re, sys, json, time, subprocess, shutil, threading
from concurrent.futures import ThreadPoolExecutor
from engine_m import harness
from engine_m.harness import log

VERIF = os.path.dirname(os.path.abspath(__file__))
MOD = 'local::timezone::verif_tz::'

def list_harnesses(prefixes):
    txt = open(os.path.join(VERIF, 'props', 'append_local-timezone__verif_tz.rs')).read()
    names = re.findall(r'^(?:hostile_v1|lookup_v1)!\((\w+),\s*(\d+),\s*(\d+)(?:,\s*(\d+))?\)', txt, flags=re.M)
    out = []
    for nm, t, n, cut in names:
        out.append({'name': nm, 't': int(t), 'n': int(n), 'cut': int(cut or 0), 'kind': 'c19' if nm.startswith('c19') else 'c18'})
    for nm in re.findall(r'^pub fn (c1[89]_\w+)\(\)', txt, flags=re.M):
        out.append({'name': nm, 'kind': 'state' if 'state' in nm else 'hdr'})
    return [h for h in out if h['name'].startswith(tuple(prefixes))]

def run_kani(scratch_dir, h, timeout, playback=False):
    tdir = os.path.join(scratch_dir, 'tk_' + h['name'])
    cmd = ['cargo', 'kani', '--harness', MOD + h['name'], '--exact', '-Z', 'stubbing', '--target-dir', tdir]
    if playback: cmd += ['-Z', 'concrete-playback', '--concrete-playback=print']
    env = dict(os.environ, CARGO_NET_OFFLINE='true'); env.pop('RUSTUP_TOOLCHAIN', None)
    t0 = time.time()
    try:
        p = subprocess.run(cmd, cwd=scratch_dir, env=env, stdout=subprocess.PIPE, stderr=subprocess.STDOUT, text=True, timeout=timeout,
                           preexec_fn=lambda: __import__('resource').setrlimit(__import__('resource').RLIMIT_AS, (12 << 30, 12 << 30)))
        out = p.stdout
    except subprocess.TimeoutExpired as e:
        out = (e.stdout or b'').decode('utf8', 'replace') if isinstance(e.stdout, bytes) else (e.stdout or '')
        shutil.rmtree(tdir, ignore_errors=True)
        return {'status': 'timeout', 'secs': round(time.time() - t0, 1), 'out': out[-2000:]}
    shutil.rmtree(tdir, ignore_errors=True)
    secs = round(time.time() - t0, 1)
    stub_ok = bool(re.search(r'Stub:.*fmt::format', out)) or 'fmt::format' in out
    if 'VERIFICATION:- SUCCESSFUL' in out:
        m = re.search(r'\*\* (\d+) of (\d+) failed', out); mc = re.search(r'\*\* (\d+) of (\d+) cover properties satisfied', out)
        return {'status': 'success', 'secs': secs, 'checks': int(m.group(2)) if m else None, 'cover': (int(mc.group(1)), int(mc.group(2))) if mc else None}
    if 'VERIFICATION:- FAILED' in out:
        failed = re.findall(r'Failed Checks: (.*)', out)
        vals = None
        if playback:
            body = out[out.find('let concrete_vals'):]
            vals = [[int(x) for x in v.split(',') if x.strip()] for v in re.findall(r'vec!\[([\d,\s]*)\]', body[body.find('vec![') + 5:])] if 'let concrete_vals' in out else None
        return {'status': 'failed', 'secs': secs, 'failed_checks': failed[:5], 'concrete_vals': vals, 'unwinding': any('unwinding assertion' in f for f in failed)}
    return {'status': 'error', 'secs': secs, 'out': out[-1500:]}

def le_int(bs, signed=True):
    return int.from_bytes(bytes(bs), 'little', signed=signed)

def replay_call(h, vals):
    """Kani's concrete values (one vector per kani::any() call, in call order) -> native replay call"""
    flat = vals
    if h['kind'] == 'c19':
        body_n = h['t'] * 5 + h['n'] * 6
        body = bytes(v[0] for v in flat[:body_n]); ts = le_int(flat[body_n]) if len(flat) > body_n else 0
        return 'c19_replay_holds', [str(h['t']), str(h['n']), str(h['cut']), body.hex() or '-', str(ts)]
    if h['kind'] == 'c18':
        t, n = h['t'], h['n']
        times = [le_int(flat[i]) for i in range(t)]; idx = [flat[t + i][0] for i in range(t)]; utoff = [le_int(flat[2 * t + i]) for i in range(n)]
        dst = [flat[2 * t + n + i][0] for i in range(n)]; ts = le_int(flat[2 * t + 2 * n])
        body = b''.join(x.to_bytes(4, 'big', signed=True) for x in times) + bytes(idx) + b''.join(utoff[i].to_bytes(4, 'big', signed=True) + bytes([dst[i], 0]) for i in range(n))
        return 'c18_replay_holds', [str(t), str(n), body.hex() or '-', str(ts)]
    if h['kind'] == 'state':
        t0, t1 = le_int(flat[0]), le_int(flat[1]); u0, u1, ur = le_int(flat[2]), le_int(flat[3]), le_int(flat[4]); ts = le_int(flat[5])
        return 'c18_state_replay_holds', [str(t0), str(t1), str(u0), str(u1), str(ur), str(ts)]
    return None, None

def run(pid, tier, seed, prefixes, known):
    t_start = time.time()
    sc = harness.Scratch(props=['append_local-timezone__verif_tz.rs', 'append_local-timezone__verif_tz_replay.rs'])
    hs = list_harnesses(prefixes)
    timeout = 600 if tier != 'thorough' else 2400
    log('[%s] %d Kani harnesses' % (pid, len(hs)))
    # native replay binary (needs the MIR for its dispatcher)
    prog = harness.Program(sc, True); sc.finish_replay(prog)
    tb = threading.Thread(target=sc.replay_bin, args=(False,)); tb.start()
    with ThreadPoolExecutor(max_workers=int(os.environ.get('VERIF_JOBS', '5'))) as ex:
        results = list(ex.map(lambda h: run_kani(sc.dir, h, timeout), hs))
    tb.join()
    # counterexample extraction (concrete playback) for the failing harnesses, in parallel
    need = [h for h, r in zip(hs, results) if r['status'] == 'failed' and not r.get('unwinding')]
    with ThreadPoolExecutor(max_workers=int(os.environ.get('VERIF_JOBS', '5'))) as ex:
        pb = dict(zip([h['name'] for h in need], ex.map(lambda h: run_kani(sc.dir, h, timeout, playback=True), need)))
    recs = []
    for h, r in zip(hs, results):
        rec = dict(harness=h['name'], shape={k: h[k] for k in ('t', 'n', 'cut') if k in h}, **{k: v for k, v in r.items() if k != 'out'})
        if r['status'] == 'failed' and not r.get('unwinding'):
            r2 = pb[h['name']]
            rec['playback_secs'] = r2.get('secs')
            fn, args = replay_call(h, r2['concrete_vals']) if r2.get('concrete_vals') else (None, None)
            if fn:
                line = sc.native(False, [(fn, args)])[0]
                rec.update(replay_fn=fn, replay_args=args, native_replay=line)
                rec['verdict'] = 'violation' if line.startswith('PANICKED') else 'inconclusive'
                if rec['verdict'] == 'inconclusive': rec['reason'] = 'Kani counterexample did not reproduce natively: ' + line[:100]
            else:
                rec['verdict'] = 'inconclusive'; rec['reason'] = 'no concrete values extracted'
        elif r['status'] == 'success':
            cov = r.get('cover')
            rec['verdict'] = 'holds'
            if cov and cov[1] > 0 and cov[0] == 0 and h.get('cut', 0) == 0 and h['kind'] != 'hdr':
                rec['verdict'] = 'inconclusive'; rec['reason'] = 'vacuous: cover property unreachable'
        else:
            rec['verdict'] = 'inconclusive'; rec['reason'] = r['status'] + (' (unwinding bound too small)' if r.get('unwinding') else '') + ' ' + (r.get('out') or '')[-300:]
        recs.append(rec)
    return sc, recs, time.time() - t_start
