"""Runs the obligations of one property on a scratch copy of /repo's working tree and writes the evidence file."""
import os, sys, json, time, multiprocessing as mp, threading, traceback, shutil
from engine_m import harness, oblig
from engine_m.harness import log
import checks_common
import checks_def

VERIF = os.path.dirname(os.path.abspath(__file__))
OUT = os.path.join(VERIF, 'out')
KF_FILE = os.path.join(VERIF, 'known_findings.json')

_PROGS = {}
_QDIR = None

def _work(job):
    ob, prof, sl, timeout, pts, seed, cross = job
    prog = _PROGS[prof]
    try:
        if ob.custom is not None:
            return ob.custom(prog, ob, prof == 'on', _QDIR, timeout, cross)
        return oblig.run_slice(prog, ob, sl, prof == 'on', _QDIR, timeout, validate_points=pts, seed=seed, cross_check=cross)
    except Exception as e:
        return {'fn': ob.fn, 'kind': ob.kind, 'profile': 'overflow-checks=' + prof, 'slice': sl, 'verdict': 'inconclusive',
                'reason': 'worker: %s: %s' % (type(e).__name__, e), 'trace': traceback.format_exc()[-2000:]}

def load_known():
    if not os.path.exists(KF_FILE): return []
    return json.load(open(KF_FILE))['findings']

def replay_native(scratch, fn, args, profile_on):
    line = scratch.native(not profile_on, [(fn, args)])[0]
    return line

def replay_file(path):
    r = json.load(open(path))
    spec = checks_def.PROPS[r['property']]
    sc = harness.Scratch(cfg_test=spec.get('cfg_test', False), props=spec.get('scratch_props'))
    sc.finish_replay(harness.Program(sc, True))
    out = []
    for prof_on in ([True, False] if r.get('profile') is None else [r['profile'].endswith('on')]):
        line = replay_native(sc, r['fn'], r['args'], prof_on)
        out.append((prof_on, line))
        print('replay %s(%s) [%s build]: %s' % (r['fn'], ', '.join(r['args']), 'dev/overflow-checks' if prof_on else 'release', line))
    bad = any(violates(r['kind'], line) for _, line in out)
    if bad:
        print('VIOLATION property=%s replay=%s' % (r['property'], path)); return 1
    print('does not reproduce on the current tree'); return 0

def violates(kind, line):
    k = line.split(' ')[0]
    if kind == 'holds': return k == 'PANICKED'
    return k == 'RETURNED'

def run_property(pid, tier, seed, only=None):
    global _QDIR
    t0 = time.time()
    spec = checks_def.PROPS[pid]
    os.makedirs(OUT, exist_ok=True); os.makedirs(os.path.join(VERIF, 'evidence'), exist_ok=True)
    rdir = os.path.join(OUT, 'replay'); os.makedirs(rdir, exist_ok=True)
    known = [k for k in load_known() if k['property'] == pid]
    quick = tier != 'thorough'
    sc = harness.Scratch(cfg_test=spec.get('cfg_test', False))
    _QDIR = os.path.join(sc.dir, 'q'); os.makedirs(_QDIR)
    # builds in parallel: two MIR dumps + two replay binaries
    errs = []
    def guard(fn, *a):
        try: fn(*a)
        except Exception as e: errs.append(e)
    ths = [threading.Thread(target=guard, args=(sc.mir, True)), threading.Thread(target=guard, args=(sc.mir, False))]
    for t in ths: t.start()
    for t in ths: t.join()
    if errs:
        print('INCONCLUSIVE property=%s reason=build: %s' % (pid, str(errs[0])[:2000])); return 2
    _PROGS['on'] = harness.Program(sc, True); _PROGS['off'] = harness.Program(sc, False)
    sc.finish_replay(_PROGS['on'])
    ths = [threading.Thread(target=guard, args=(sc.replay_bin, False)), threading.Thread(target=guard, args=(sc.replay_bin, True))]
    for t in ths: t.start()
    for t in ths: t.join()
    if errs:
        print('INCONCLUSIVE property=%s reason=build: %s' % (pid, str(errs[0])[:2000])); return 2
    obs = spec['obligations'](tier)
    if only: obs = [o for o in obs if any(x in o.fn for x in only)]
    base_timeout = spec.get('timeout', {}).get(tier, 600 if quick else 1800)
    nval = spec.get('validate', {}).get(tier, 10 if quick else 40)
    jobs = []
    for ob in obs:
        # known findings of status "known" are assumed away by class; the witness is re-checked below
        ob.kf = [k['class'] for k in known if k.get('fn') == ob.fn and k['status'] == 'known']
        for prof in ob.profiles:
            pts = oblig.gen_points(_PROGS[prof], ob, nval, seed) if (ob.validate and nval) else None
            first = True
            for sl in ob.slices:
                jobs.append((ob, prof, sl, ob.timeout or base_timeout, pts if first else None, seed, not quick))
                first = False
    log('[%s] %d obligations -> %d (obligation, profile, slice) queries sets, tier=%s' % (pid, len(obs), len(jobs), tier))
    nproc = min(int(os.environ.get('VERIF_JOBS', '5')), max(1, len(jobs)))
    ctxm = mp.get_context('fork')
    with ctxm.Pool(nproc) as pool:
        recs = pool.map(_work, jobs, chunksize=1)
    # ---- counterexamples found under an over-approximating abstraction (uninterpreted oracle functions) may be
    # spurious: re-decide those obligations with the abstraction expanded before anything is reported
    def check_native(rec):
        line = replay_native(sc, rec.get('replay_fn', rec['fn']), rec['model_args'], rec['profile'].endswith('on'))
        rec['native_replay'] = line
        return violates(rec['kind'], line)
    redo = []
    for i, rec in enumerate(recs):
        if rec['verdict'] == 'counterexample' and jobs[i][0].custom is None and any('/uf' in a for a in rec.get('abstractions', [])) and not check_native(rec):
            ob = jobs[i][0]
            import copy
            ob2 = copy.copy(ob); ob2.abstractions = tuple(a for a in ob.abstractions if '/uf' not in a)
            redo.append((i, (ob2, jobs[i][1], jobs[i][2], jobs[i][3], None, seed, jobs[i][6])))
    for i, rec in enumerate(recs):
        if rec['verdict'] == 'counterexample' and jobs[i][0].custom is not None and 'model_args' in rec and not check_native(rec) and rec.get('scan_args'):
            # piece-level counterexample that is not observable from the one clock value of its model: scan clock values natively
            line = replay_native(sc, rec['scan_fn'], rec['scan_args'], rec['profile'].endswith('on'))
            if violates(rec['kind'], line):
                rec['replay_fn'] = rec['scan_fn']; rec['model_args'] = rec['scan_args']; rec['native_replay'] = line
    for i, rec in enumerate(recs):
        if rec['verdict'] == 'counterexample' and jobs[i][0].custom is not None and 'model_args' in rec and not check_native(rec):
            import copy
            ob2 = copy.copy(jobs[i][0]); ob2.opts = dict(ob2.opts, realistic=True)
            redo.append((i, (ob2, jobs[i][1], jobs[i][2], max(jobs[i][3], 600), None, seed, jobs[i][6])))
    if redo:
        log('[%s] re-deciding %d obligations without the uninterpreted-oracle abstraction (spurious models)' % (pid, len(redo)))
        with ctxm.Pool(min(nproc, len(redo))) as pool:
            recs2 = pool.map(_work, [j for _, j in redo], chunksize=1)
        for (i, _), r2 in zip(redo, recs2):
            r2['note'] = 're-decided expanded after a spurious model under ' + ','.join(recs[i].get('abstractions', []))
            recs[i] = r2
    # ---- verdicts
    violations = []; inconclusive = []; held = 0; kf_lines = []
    for rec in recs:
        v = rec['verdict']
        if v == 'holds': held += 1
        elif v == 'counterexample':
            prof_on = rec['profile'].endswith('on')
            line = replay_native(sc, rec.get('replay_fn', rec['fn']), rec['model_args'], prof_on)
            rec['native_replay'] = line
            if violates(rec['kind'], line):
                violations.append(rec)
            else:
                rec['verdict'] = 'inconclusive'; rec['reason'] = 'solver model did not reproduce natively (%s): encoding error' % line[:100]
                inconclusive.append(rec)
        else: inconclusive.append(rec)
    # ---- known findings: the stored witness must still fail; classes were assumed away above
    for k in known:
        if k['status'] != 'known': continue
        spec_ob = [o for o in obs if o.fn == k.get('fn')]
        if not spec_ob: continue
        kind = spec_ob[0].kind
        fails = []
        for prof_on in (True, False):
            if ('on' if prof_on else 'off') not in spec_ob[0].profiles: continue
            line = replay_native(sc, k['fn'], [str(x) for x in k['witness']], prof_on)
            fails.append(violates(kind, line))
        if any(fails):
            kf_lines.append('KNOWN-FINDING: property=%s %s [witness %s(%s)]' % (pid, k['what'], k['fn'], ', '.join(str(x) for x in k['witness'])))
    for l in kf_lines: print(l)
    # ---- evidence
    nqueries = sum(len(r.get('queries', [])) for r in recs)
    nontrivial = sum(1 for r in recs if r.get('vacuity_witness') == 'sat' and r['verdict'] in ('holds', 'counterexample'))
    fns = sorted(set(f for r in recs for f in r.get('functions_encoded', [])))
    models = sorted(set(f for r in recs for f in r.get('std_models', [])))
    val_pts = sum(r.get('validation', {}).get('points', 0) for r in recs); val_agree = sum(r.get('validation', {}).get('agree', 0) for r in recs)
    samples = []
    shown = [r for r in recs if r['verdict'] != 'holds'][:15] + sorted(recs, key=lambda r: -(r.get('wall_s') or 0))[:10] + recs[:25]
    seen_ids = set(); ordered = []
    for r in shown:
        if id(r) not in seen_ids: seen_ids.add(id(r)); ordered.append(r)
    for r in ordered:
        samples.append({k: r.get(k) for k in ('fn', 'ob_note', 'kind', 'profile', 'slice', 'verdict', 'reason', 'abstractions', 'vacuity_witness', 'symex_s', 'solver_s',
                                              'panic_sites', 'side_constraints', 'unwound_states', 'queries', 'wall_s', 'model', 'native_replay', 'validation', 'sites') if r.get(k) is not None})
    ev = {
        'property_id': pid, 'tier': 'quick' if quick else 'thorough', 'seed': seed, 'level': 'model_checking',
        'coverage': {
            'evaluations': nqueries, 'distinct_nontrivial': nontrivial,
            'rule': 'one evaluation = one SMT query decided by a solver over ALL values of the stated argument domain (not a concrete run); '
                    'an (obligation, profile, slice) counts as non-trivial when its vacuity witness is satisfiable and its violation query was decided',
            'obligations': len(recs), 'discharged': held,
            'samples': samples,
            'functions_encoded': fns, 'std_models_and_stubs': models,
            'bounds': spec.get('bounds', ''), 'outside_claim': spec.get('outside', ''),
            'profiles': ['MIR with -C overflow-checks=on (dev semantics)', 'MIR with -C overflow-checks=off (release semantics)'],
            'translator_validation': {'concrete_points': val_pts, 'agree_with_native_build': val_agree},
            'solver_time_s': round(sum(r.get('solver_s', 0) or 0 for r in recs), 2), 'symex_time_s': round(sum(r.get('symex_s', 0) or 0 for r in recs), 2),
            'known_findings_reported': kf_lines, 'inconclusive': [{'fn': r['fn'], 'profile': r['profile'], 'reason': r.get('reason')} for r in inconclusive][:20],
            'exhaustive': False,
        },
        'assumptions': ['rustc nightly MIR (-Zunpretty=mir) is a faithful rendering of the code that is compiled', 'the MIR->SMT executor in /verif/engine_m and its std models (listed)',
                        'soundness of cvc5 1.0.3 / z3 5.1 / z3 4.8.12 on linear integer arithmetic with uninterpreted functions',
                        'claims hold within the stated bounds only'] + spec.get('assumptions', []),
        'wall_s': round(time.time() - t0, 2), 'violations': len(violations),
    }
    json.dump(ev, open(os.path.join(VERIF, 'evidence', pid + '.json'), 'w'), indent=1, default=str)
    # ---- report
    for r in inconclusive:
        print('INCONCLUSIVE property=%s fn=%s %s slice=%s%s: %s' % (pid, r['fn'], r['profile'], r.get('slice'), (' [%s]' % r['ob_note'][:160]) if r.get('ob_note') else '', (r.get('reason') or '')[:400]))
        if r.get('trace') and os.environ.get('VERIF_DEBUG'): print(r['trace'])
    rc = 0
    if violations:
        seen = set()
        for i, r in enumerate(violations):
            key = (r['fn'], r['profile'])
            if key in seen: continue
            seen.add(key)
            import re as _re
            path = os.path.join(rdir, '%s_%s_%s.json' % (pid, _re.sub(r'[^A-Za-z0-9_]+', '_', r['fn']).strip('_'), 'on' if r['profile'].endswith('on') else 'off'))
            json.dump({'property': pid, 'fn': r.get('replay_fn', r['fn']), 'kind': r['kind'], 'profile': r['profile'], 'args': r['model_args'], 'model': r.get('model'),
                       'native': r.get('native_replay'), 'sites': r.get('sites')}, open(path, 'w'), indent=1, default=str)
            print('  counterexample %s(%s) [%s]: %s' % (r['fn'], ', '.join(r['model_args']), r['profile'], r.get('native_replay', '')[:200]))
            print('VIOLATION property=%s replay=%s' % (pid, path))
        rc = 1
    elif inconclusive: rc = 2
    slow = sorted(recs, key=lambda r: -(r.get('wall_s') or 0))[:6]
    log('[%s] slowest: %s' % (pid, '; '.join('%s %s %s %.0fs (val %s)' % (r['fn'], r['profile'][-3:].strip('='), r.get('slice') or '', r.get('wall_s') or 0, (r.get('validation') or {}).get('points')) for r in slow)))
    print('[%s] tier=%s obligations=%d held=%d violations=%d inconclusive=%d queries=%d wall=%.1fs' % (pid, tier, len(recs), held, len(violations), len(inconclusive), nqueries, time.time() - t0))
    return rc
