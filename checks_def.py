"""Per-property obligation lists. Each obligation = property function (Rust, in props/) x profiles x domain slices."""
from engine_m.oblig import Ob

Y = (-5_879_612, 5_879_612)

def oracle_obs(tier):
    return [Ob('oracle_rd_succ_holds', profiles=('on',), note='oracle sanity'),
            Ob('oracle_rd_monotone_holds', profiles=('on',), note='oracle sanity', solvers=('cvc5', 'z3new')),
            Ob('oracle_rd_anchors_holds', profiles=('on',), note='oracle sanity'),
            Ob('oracle_ylen_holds', profiles=('on',), note='oracle sanity')]

def c01(tier):
    obs = oracle_obs(tier)
    obs += [Ob('c01_days_to_date_holds', slices=[{'d': (-2**31, -1)}, {'d': (0, 2**31 - 1)}]),
            Ob('c01_date_as_ymd_holds', abstractions=['days_to_date']),
            Ob('c01_datetime_as_ymd_holds', abstractions=['days_to_date']),
            Ob('c01_date_to_days_holds'),
            Ob('c01_date_from_ymd_holds'),
            Ob('c01_datetime_from_ymd_holds'),
            Ob('c01_roundtrip_holds', abstractions=['days_to_date'])]
    return obs

PROPS = {
    'C01': {'obligations': c01,
            'bounds': 'all 2^32 day numbers; all (year, month, day) in i32 x u32 x u32; month loop unwound 16 with unwinding assertion',
            'outside': 'nothing inside the property statement; formatting of error messages is not encoded'},
}
