"""Per-property obligation lists. Each obligation = property function (Rust, in props/) x profiles x domain slices."""
import os
from engine_m.oblig import Ob

Y = (-5_879_612, 5_879_612)

def oracle_obs(tier):
    return [Ob('oracle_rd_succ_holds', profiles=('on',), note='oracle sanity'),
            Ob('oracle_rd_monotone_holds', profiles=('on',), note='oracle sanity'),
            Ob('oracle_rd_anchors_holds', profiles=('on',), note='oracle sanity'),
            Ob('oracle_ylen_holds', profiles=('on',), note='oracle sanity'),
            Ob('oracle_wd_ymd_holds', profiles=('on',), note='oracle sanity'),
            Ob('oracle_floor_helpers_holds', profiles=('on',), note='oracle sanity', opts={'expand_floor_helpers': True}, dom={'a': (-2**62, 2**62), 'b': (-2**100, 2**100)})]

def c01(tier):
    obs = oracle_obs(tier)
    obs += [Ob('c01_days_to_date_holds', slices=[{'d': (-2**31, -1)}, {'d': (0, 2**31 - 1)}]),
            Ob('c01_date_as_ymd_holds', abstractions=['days_to_date']),
            Ob('c01_datetime_as_ymd_holds', abstractions=['days_to_date']),
            Ob('c01_date_to_days_holds'),
            Ob('c01_date_from_ymd_holds'),
            Ob('c01_datetime_from_ymd_holds'),
            Ob('c01_roundtrip_holds', abstractions=['days_to_date']),
            Ob('c01_triple_roundtrip_holds', abstractions=['days_to_date', 'spec_rd/uf'])]
    return obs

def fns_of(prefix, text_file):
    import re, os
    t = open(os.path.join(os.path.dirname(os.path.abspath(__file__)), 'props', text_file)).read()
    return sorted(set(re.findall(r'\b(%s\w+_(?:holds|mustpanic))\b' % prefix, t)))

def c02(tier):
    A = ['days_to_date']
    B = ['days_to_date/bound']
    months = [{'m': (k, k)} for k in range(1, 13)]
    eras = [{'y': (1, 5_879_612)}, {'y': (-5_879_612, -401)}, {'y': (-400, -1)}]
    return oracle_obs(tier) + [Ob('c01_days_to_date_holds', slices=[{'d': (-2**31, -1)}, {'d': (0, 2**31 - 1)}], note='contract of days_to_date used below'),
            Ob('c02_date_weekday_holds'), Ob('c02_wday_monday_first_holds'), Ob('c02_datetime_weekday_holds'),
            Ob('c02_day_of_year_holds', abstractions=A), Ob('c02_datetime_day_of_year_holds', abstractions=['days_to_date/uf', 'days_to_doy/uf']),
            Ob('c02_quarter_holds', abstractions=A),
            Ob('c02_set_day_of_year_holds', abstractions=A),
            # week of year at full range = base 400-year cycle + invariance of library and oracle under a one-cycle shift (induction over cycles is the meta-step)
            Ob('c02_d2d_period_holds', note='week of year: calendar decomposition invariant under a 146097-day shift'),
            Ob('c02_wyear_period_holds', abstractions=B, dom={'d': (-2**31, 2**31 - 1 - 146_097)}, slices=[dict(e, **m) for e in eras for m in months], note='week of year: library invariant under the shift'),
            Ob('c02_wyear_base_holds', abstractions=B, slices=months, note='week of year: base cycle 2000..=2399'),
            Ob('c02_spec_week_period_holds', slices=[dict(e, **m) for e in eras for m in months], profiles=('on',), note='week of year: oracle invariant under the shift'),
            Ob('c02_week_of_year_holds', abstractions=A, dom={'d': (-40_000, 40_000) if tier != 'thorough' else (-600_000, 900_000)}, note='week of year: direct end-to-end cross-check on a window around 0001-01-01')]

def c03(tier):
    return [Ob(f) for f in fns_of('c03_', 'c03.rs')]

def c04(tier):
    return [Ob(f) for f in fns_of('c04_', 'c04.rs')]

def c06(tier):
    return [Ob(f) for f in fns_of('c06_', 'c06.rs')]

def c08(tier):
    return [Ob(f) for f in fns_of('c08_', 'c08.rs')]

def c10(tier):
    A = ['days_to_date']
    return [Ob(f, abstractions=['days_to_date/uf', 'days_to_doy/uf'] if 'date_getters' in f else ()) for f in fns_of('c10_', 'c10.rs')]

def c15(tier):
    A = ['days_to_date']
    B = ['days_to_date/bound', 'date_to_days', 'spec_rd/uf'] + KERNELS
    signs = [{'d': (-2**31, -2)}, {'d': (-1, 1)}, {'d': (2, 2**31 - 1)}]
    dt_date_setters = [Ob(f, abstractions=(['days_to_date/bound'] + KERNELS) if 'day_of_year' in f else B, slices=signs, timeout=(900 if 'day_of_year' in f and tier != 'thorough' else None),
                          profiles=(('on',) if tier != 'thorough' else ('on', 'off')),     # (C09 runs both profiles of these in both tiers)
                          note='DateTime date setters under any offset, range ends included (shared with C09): Ok exactly when the edited local date exists and is representable')
                       for f in ('c09_dt_set_year_holds', 'c09_dt_set_month_holds', 'c09_dt_set_day_holds', 'c09_dt_set_day_of_year_holds')]
    # DateTime time setters up to the range ends (C15's own *_dt_set_* obligations keep a one-day margin): Ok / Err(OutOfRange) exactly, never a panic
    dt_time_setters = [Ob('c09_dt_set_%s_holds' % u, abstractions=KERNELS, slices=signs,
                          note='DateTime time setters under any offset, first and last representable day included (shared with C09): Err(OutOfRange) exactly when the edited local time is not a representable instant, never a panic')
                       for u in ('hour', 'minute', 'second', 'milli', 'micro', 'nano')]
    return [Ob('c01_days_to_date_holds', slices=[{'d': (-2**31, -1)}, {'d': (0, 2**31 - 1)}], note='contract of days_to_date used below'),
            Ob('c01_date_to_days_holds', note='contract of date_to_days used below')] + kernel_obs() + dt_date_setters + dt_time_setters + \
           [Ob(f, abstractions=A if '_date_set_' in f else (), slices=_c15_slices(f)) for f in fns_of('c15_', 'c15.rs')]

def _c15_slices(f):
    # the two slowest obligations are split by the sign of the year / day number (shorter, steadier queries under load)
    if f == 'c15_date_from_ymd_ranges_holds': return [{'y': (-2**31, -1)}, {'y': (0, 2**31 - 1)}]
    if f == 'c15_date_set_day_of_year_holds': return [{'d': (-2**31, -1)}, {'d': (0, 2**31 - 1)}]
    return None

def c05(tier):
    A = ['days_to_date']
    A = ['days_to_date', 'date_to_days', 'spec_rd/uf']
    return [Ob('c01_days_to_date_holds', slices=[{'d': (-2**31, -1)}, {'d': (0, 2**31 - 1)}], note='contract of days_to_date used below'),
            Ob('c01_date_to_days_holds', note='contract of date_to_days used below'),
            Ob('oracle_rd_bound_holds', profiles=('on',), note='bound lemma attached to the uninterpreted view of spec_rd'),
            Ob('oracle_rd_monotone_holds', profiles=('on',), note='oracle sanity')] + \
           [Ob(f, abstractions=A) for f in fns_of('c05_', 'c05.rs')]

def c07(tier):
    B = ['days_to_date/bound']
    return [Ob('c01_days_to_date_holds', slices=[{'d': (-2**31, -1)}, {'d': (0, 2**31 - 1)}], note='days_to_date is total and characterised by its contract: the consistent tuples cover every day'),
            Ob('oracle_rd_monotone_holds', profiles=('on',), note='order of valid triples == order of days')] + \
           [Ob(f, abstractions=B) for f in fns_of('c07_', 'c07.rs')]

KERNELS = ['nanos_to_days_nanos', 'days_nanos_to_nanos', 'nanos_to_time']
def kernel_obs():
    return [Ob('oracle_rd_bound_holds', profiles=('on',), note='bound lemma attached to the uninterpreted view of spec_rd'),
            Ob('c03_days_nanos_to_nanos_contract_holds', note='contract of days_nanos_to_nanos used below'),
            Ob('c03_nanos_to_days_nanos_contract_holds', note='contract of nanos_to_days_nanos used below'),
            Ob('c03_nanos_to_time_contract_holds', note='contract of nanos_to_time used below')]

def c09(tier):
    B = ['days_to_date/bound', 'date_to_days', 'spec_rd/uf'] + KERNELS
    obs = [Ob('c01_days_to_date_holds', slices=[{'d': (-2**31, -1)}, {'d': (0, 2**31 - 1)}], note='days_to_date total; consistent tuples cover every day'),
           Ob('c01_date_to_days_holds', note='contract of date_to_days used below')] + kernel_obs()
    signs = [{'d': (-2**31, -2)}, {'d': (-1, 1)}, {'d': (2, 2**31 - 1)}]
    for f in fns_of('c09_', 'c09.rs'):
        sl = signs if '_dt_' in f else None
        if 'day_of_year' in f: obs.append(Ob(f, abstractions=['days_to_date/bound'] + KERNELS, slices=sl, timeout=(900 if tier != 'thorough' else None)))
        elif '_dt_set_year' in f or '_dt_set_month' in f or '_dt_set_day' in f or 'clear_until_year' in f and '_dt_' in f or 'clear_until_month' in f or 'clear_until_day' in f or '_date_' in f:
            obs.append(Ob(f, abstractions=B, slices=sl))
        else: obs.append(Ob(f, abstractions=KERNELS if '_dt_' in f else (), slices=sl))
    return obs

def rfc3339_shape(k, zulu):
    """string length and per-byte domains of one ABNF shape (mirrors the assumptions in c13_parse_rfc3339_matches_grammar_holds)"""
    D = (48, 57)
    dom = {}
    for i in range(19):
        if i in (4, 7): dom[i] = (45, 45)
        elif i == 10: dom[i] = (84, 84)
        elif i in (13, 16): dom[i] = (58, 58)
        else: dom[i] = D
    p = 19
    if k > 0:
        dom[19] = (46, 46)
        for i in range(k): dom[20 + i] = D
        p = 20 + k
    if zulu: dom[p] = (90, 90); L = p + 1
    else:
        dom[p] = (43, 45)
        for j in (1, 2, 4, 5): dom[p + j] = D
        dom[p + 3] = (58, 58); L = p + 6
    return L, dom

def c13(tier):
    ks = [0, 1, 2, 3, 6, 8, 9, 10, 11, 12, 19, 20, 21] if tier != 'thorough' else list(range(0, 26))
    A = ['date_to_days', 'spec_rd/uf'] + KERNELS
    obs = [Ob('c01_date_to_days_holds', note='contract of date_to_days used below')] + kernel_obs()
    for k in ks:
        for zulu in (True, False):
            L, bd = rfc3339_shape(k, zulu)
            if L > 46: continue
            obs.append(Ob('c13_parse_rfc3339_matches_grammar_holds', strlen=L, unwind=30, dom={'k': (k, k), 's#bytes': bd}, abstractions=A,
                          slices=[{'zulu': zulu}], note='shape: %d fraction digits, %s; length %d' % (k, 'Z' if zulu else 'numeric offset', L), validate=False))
    return obs

def c14(tier):
    pre = [Ob('probe_ascii_case_holds', strlen=L, unwind=L + 4, note='std model self-test: to_ascii_uppercase/lowercase, all strings of %d bytes' % L) for L in (0, 2, 4)]
    pre += [Ob('probe_unicode_case_holds', strlen=L, unwind=L + 4, dom={'n': (0, 2 * L), 'k': (0, 2 * L)}, profiles=('on',), opts={'validate_only': True},
               note='encoding validation only: to_uppercase (std table of this build), strings of %d bytes' % L) for L in (1, 2, 4)]
    lens = [0, 5, 19, 20, 21, 25, 26, 30, 35, 42] if tier != 'thorough' else list(range(0, 46))
    obs = []
    for L in lens:
        obs.append(Ob('c14_parse_rfc3339_total_holds', strlen=L, note='all strings of byte length %d' % L))
        obs.append(Ob('c14_datetime_from_str_total_holds', strlen=L, note='all strings of byte length %d' % L))
    return pre + obs

def c17(tier):
    from engine_m import cronloop
    days = (738_156, 739_616) if tier != 'thorough' else (719_162, 3_652_058)      # 2022-01-01..2025-12-31 / 1970..9999
    B = ['days_to_date/bound', 'spec_rd/uf'] + KERNELS
    obs = [Ob('c01_days_to_date_holds', slices=[{'d': (-2**31, -1)}, {'d': (0, 2**31 - 1)}], note='contract of days_to_date'),
           Ob('c01_date_to_days_holds', note='contract of date_to_days'), Ob('oracle_rd_monotone_holds', profiles=('on',), note='lemma instantiated in c17_month_constant_holds'),
           Ob('c01_triple_roundtrip_holds', abstractions=['days_to_date', 'spec_rd/uf'], note='side fact of the date_to_days abstraction')] + kernel_obs()
    obs += [Ob('c17_hour_constant_holds', abstractions=KERNELS), Ob('c17_day_constant_holds', abstractions=['days_to_date/uf', 'days_to_doy/uf'] + KERNELS),
            Ob('c17_month_constant_holds', abstractions=B)]
    for piece in ('prologue', 'exit', 'month', 'day', 'hour', 'minute'):
        o = Ob('c17_piece_' + piece, opts={'piece': piece, 'days': days}, validate=False)
        o.custom = cronloop.piece
        obs.append(o)
    return obs

def tz_contracts():
    return [Ob('c01_days_to_date_holds', slices=[{'d': (-2**31, -1)}, {'d': (0, 2**31 - 1)}], note='contract of days_to_date used below'),
            Ob('c01_date_to_days_holds', note='contract of date_to_days used below'),
            Ob('c01_triple_roundtrip_holds', abstractions=['days_to_date', 'spec_rd/uf'], note='side fact of the date_to_days abstraction')]

TZ_A = ['days_to_date', 'date_to_days']
def c19(tier):
    import tzif_shapes as S
    seed = int(os.environ.get('VERIF_SEED', '0') or 0)
    obs = tz_contracts()
    obs.append(Ob('c19_bounds_lemma_holds', unwind=14, validate=False, note='the timestamp constants used in the assumptions below, against the crate'))
    obs.append(Ob('c19_rule_day_total_holds', abstractions=TZ_A, unwind=14, slices=[{'kind': (k, k)} for k in (0, 1, 2)],
                  note='lookup half: any rule day the reader accepts x any rule time x any timestamp of the DateTime range'))
    pairs = [(0, 1), (1, 2), (2, 0)] if tier != 'thorough' else [(a, b) for a in range(3) for b in range(3)]
    obs.append(Ob('c19_alt_lookup_total_holds', abstractions=TZ_A, unwind=14, slices=[{'k1': (a, a), 'k2': (b, b)} for a, b in pairs], timeout=900 if tier != 'thorough' else 1800,
                  note='lookup half: the alternating-rule branch of to_local_time_type on any pair of accepted rule days, offsets and times'))
    # std-model self-tests for the models the reader needs (decided and compared with the native build on concrete points)
    obs += [Ob('probe_vec_holds', note='std model self-test: Vec of symbolic length'), Ob('probe_step_by_holds', note='std model self-test: Range::step_by().collect()')]
    for L in (0, 1, 3, 5):
        obs.append(Ob('probe_parse_trim_holds', strlen=L, unwind=L + 4, dom={'b#bytes': {i: (0, 127) for i in range(L)}}, opts={'resolve_ite': True}, note='std model self-test: from_utf8/trim_matches/parse/starts_with, all ASCII strings of %d bytes' % L))
    shapes = S.c19_reader_shapes(tier, seed)
    for desc, bd, profiles in shapes:
        L, dom = S.dom_of(bd)
        obs.append(Ob('c19_tzif_total_holds', strlen=L, unwind=L + 4, dom={'b#bytes': dom}, profiles=profiles, validate=True, opts={'resolve_ite': True, 'symex_cap': 240 if tier != 'thorough' else 900}, note='reader half: ' + desc))
    # encoding validation (not claims): the encoding and the native build agree on the class of the reader's result on concrete files
    for desc, bd, profiles in [x for x in shapes if ' footer ' in x[0] or 'any six counts' in x[0]][::(6 if tier != 'thorough' else 12)]:
        L, dom = S.dom_of(bd)
        obs.append(Ob('c19_enc_classify_holds', strlen=L, unwind=L + 4, dom={'b#bytes': dom, 'k': (0, 4)}, profiles=('on',), validate=True, opts={'resolve_ite': True, 'validate_only': True},
                      note='encoding validation only: ' + desc))
    return obs

def c18(tier):
    import tzif_shapes as S
    thorough = tier == 'thorough'
    obs = tz_contracts()
    obs.append(Ob('c19_bounds_lemma_holds', unwind=14, validate=False, note='the timestamp constants used in the assumptions below, against the crate'))
    # (1) the transition table, read from bytes: v1 and v2/v3 files, all times / type indices / offsets symbolic
    tables = [(1, 1), (2, 2), (3, 2)] if not thorough else [(1, 1), (1, 2), (2, 2), (3, 2), (3, 3), (4, 2), (5, 3)]
    for t, n in tables:
        obs.append(Ob('c18_table_lookup_holds', **_shape(S.v1_file((0, 0, 0, t, n, 0))), note='table: v1, %d transitions, %d types, all content bytes free' % (t, n)))
        if t >= 2:      # (between the first and the last transition: needs two)
            obs.append(Ob('c18_table_lookup_holds', **_shape(S.v2_file(0x32, (0, 0, 0, 0, 0, 0), (0, 0, 0, t, n, 4), 'NaaadN')), note='table: v2 (slim v1 block), %d transitions, %d types, all content bytes free' % (t, n)))
    obs.append(Ob('c18_table_lookup_holds', **_shape(S.v2_file(0x33, (0, 0, 0, 2, 2, 4), (1, 1, 1, 2, 2, 4), 'NEST5EDT,M3.2.0,M11.1.0N')), note='table: v3 (fat v1 block, leap/isstd/isut records), 2 transitions, 2 types'))
    # (2) the footer: what the reader builds is what the text denotes (independent reference reader); fixed rules resolve to their offset
    for tpl in S.FIXED + S.ALT:
        for ver in ((0x33,) if not thorough else (0x32, 0x33)):
            for c2 in ([(0, 0, 0, 1, 1, 0)] if not thorough else [(0, 0, 0, 0, 1, 0), (0, 0, 0, 2, 2, 0)]):
                obs.append(Ob('c18_footer_holds', **_shape(S.v2_file(ver, (0, 0, 0, 0, 0, 0), c2, tpl)), note='footer: v%s table %s footer %s' % (chr(ver), c2, S.tpl_str(tpl))))
    # (3) the rule semantics, in two steps: the value of each rule instant, and the branch logic of the lookup for any instants.
    # The calendar closed forms (spec_rd, spec_is_leap) and the timestamp -> year step are taken as uninterpreted there; what is
    # needed of them comes in as contracts and lemmas, each an obligation of this run with the closed forms expanded
    obs += [Ob('oracle_rd_bound_holds', profiles=('on',), note='bound lemma attached to the uninterpreted view of spec_rd'),
            Ob('oracle_rd_month_lemma_holds', profiles=('on',), note='lemma instantiated in the rule obligations: first of a month relative to January 1'),
            Ob('oracle_rd_inner_lemma_holds', profiles=('on',), note='lemma instantiated in the rule obligations: January 1 of an inner year is well inside the day range'),
            Ob('c18_inner_year_holds', abstractions=['days_to_date'], unwind=14, note='assumed after the year is read in the rule obligations: an inner timestamp has an inner year'),
            Ob('c18_is_leap_contract_holds', note='contract of is_leap_year used below'),
            Ob('c18_year_doy_contract_holds', unwind=14, slices=[{'y': (-5_879_611, -1)}, {'y': (1, 5_879_611)}], timeout=900, note='contract of year_doy_to_days used below (Julian rule days skip 29 February)')]
    R = ['days_to_date/uf', 'date_to_days', 'year_doy_to_days', 'is_leap_year', 'spec_rd/uf', 'spec_is_leap/uf']
    obs.append(Ob('c18_rule_day_holds', abstractions=R, unwind=14, slices=[{'kind': (0, 0)}, {'kind': (1, 1)}] + [{'kind': (2, 2), 'c': (c, c)} for c in range(7)], timeout=900, validate=False,
                  note='rule day -> local instant vs the closed-form calendar reference (Mm.w.d sliced by weekday)'))
    obs.append(Ob('c18_alt_branch_holds', abstractions=['rule_to_local_timestamp/uf'], unwind=14, validate=False,
                  note='daylight time exactly between the two rule instants, either order (hemisphere), for any values of the instants'))
    obs.append(Ob('c18_alt_after_table_holds', abstractions=['rule_to_local_timestamp/uf'], unwind=14, validate=False,
                  note='table + alternating rule: the table answers between its transitions, the rule from the last transition on'))
    pairs = [(0, 1)] if not thorough else [(0, 1), (1, 0), (0, 0), (1, 1)]
    obs.append(Ob('c18_alt_offset_holds', abstractions=R, unwind=14, slices=[{'k1': (a, a), 'k2': (b, b)} for a, b in pairs], timeout=900 if not thorough else 2400, validate=False,
                  note='end to end on some rule-kind pairs: standard/daylight switching at the reference instants, IANA-shaped rules'))
    return obs

def _shape(bd):
    import tzif_shapes as S
    L, dom = S.dom_of(bd)
    return dict(strlen=L, unwind=L + 4, dom={'b#bytes': dom}, validate=True, opts={'resolve_ite': True})

def c11(tier):
    A = ['days_to_date']
    obs = [Ob('c01_days_to_date_holds', slices=[{'d': (-2**31, -1)}, {'d': (0, 2**31 - 1)}], note='contract of days_to_date used below')]
    for f in fns_of('c11_', 'append_util-format__verif_fmt.rs'):
        obs.append(Ob(f, abstractions=A if '_date_' in f else (), opts={'fmt_terms': True}, validate=True))
    return obs

PROPS = {
    'C01': {'obligations': c01,
            'bounds': 'all 2^32 day numbers; all (year, month, day) in i32 x u32 x u32; month loop unwound 16 with unwinding assertion',
            'outside': 'nothing inside the property statement; formatting of error messages is not encoded'},
    'C02': {'obligations': c02, 'bounds': 'all 2^32 day numbers; all offsets in (-24h, 24h); all u32 day-of-year arguments', 'outside': 'the rendering of w/q/e/D values into text (std formatting)'},
    'C03': {'obligations': c03, 'bounds': 'all i64 timestamps; all pairs of (day, nanos, offset)', 'outside': ''},
    'C05': {'obligations': c05, 'bounds': 'all 2^32 days x all u32 counts, Date and DateTime (all times of day, offsets)', 'outside': ''},
    'C06': {'obligations': c06, 'bounds': 'all pairs of (day, nanos, offset); all u32 counts for the add-inverse', 'outside': 'months/years (C07)'},
    'C07': {'obligations': c07, 'bounds': 'all pairs (triples for monotonicity) of days at full range, all times of day; quantified as consistent (day, year, month, day-of-month) tuples', 'outside': 'offsets (months_since ignores them, as day arithmetic does)'},
    'C08': {'obligations': c08, 'bounds': 'all times of day x all u32 counts; all pairs of Times; all Durations', 'outside': ''},
    'C09': {'obligations': c09, 'bounds': 'all instants with a two-day margin at the range ends x all offsets in (-24h, 24h) x all u32/i32 candidate values', 'outside': 'the two days at each end of the range'},
    'C10': {'obligations': c10, 'bounds': 'all instants with a one-day margin at the range ends x all offsets in (-24h, 24h)', 'outside': 'the x/X zone text (C11); Offset::Local (reads /etc/localtime: C18)'},
    'C11': {'obligations': c11, 'bounds': 'REDUCED: one-symbol patterns only: every documented symbol x widths 1..=max+2, all days / all times of day x all offsets; strings compared as terms (renderer, template, arguments)', 'outside': 'the tokenizer parse_format_string, concatenation order, literals and quoting; the `yy` field for BC years (documented by AD examples only: only absence of panics is decided there); that the leaf renderers (std formatting) print digits correctly'},
    'C13': {'obligations': c13, 'bounds': 'read side only: all strings of each listed byte length (<= 45) over ASCII and two-byte UTF-8 sequences; reference reader loop unwound 30', 'outside': 'format_rfc3339 (String building); strings with 3/4-byte characters; lengths above 45'},
    'C14': {'obligations': c14, 'bounds': 'DateTime::parse_rfc3339 and DateTime::from_str only: all strings of each listed byte length (<= 45) over ASCII and two-byte UTF-8', 'outside': 'parse()/format() with pattern strings, Date/Time::from_str, CronSchedule::parse (String/Vec<String> code out of reach)'},
    'C17': {'obligations': c17, 'cfg_test': True, 'bounds': 'all schedules (any non-empty subsets of the five field ranges), clock and loop state in the stated day window (quick: 2022-2025, thorough: 1970-9999), offset 0; any number of carry steps by induction over loop iterations (meta-step)', 'outside': 'termination for unsatisfiable schedules; schedules whose pinned clock carries a non-zero offset; expression parsing (C16)'},
    'C18': {'obligations': c18,
            'bounds': 'table: files with the listed numbers of transitions and types (<= 5 / 3), every content byte (times, type indices, offsets) symbolic, every timestamp from the first transition on; footer: every file whose footer follows one of the listed class templates (digits free), compared with an independent reference reader of the POSIX TZ string; rule semantics: every rule day / time / pair of offsets the reader can accept x every timestamp in years -5879610..=5879610, against a closed-form calendar reference, under the IANA-shape assumptions of the property',
            'outside': 'longer tables; footers outside the templates; the first and last representable year (known finding of C19); Offset::Local reading /etc/localtime and the wall clock (I/O); agreement of the reference evaluator with CPython zoneinfo (not available to a solver)'},
    'C19': {'obligations': c19,
            'bounds': 'reader half: the stated families of byte strings (version 1 with any counts < 256 and all content free at lengths 44, 50, 55 (thorough: every length 44..58), truncated headers, wrong magic / version, mixed-version headers, fixed larger tables, version 2/3 files whose footer follows one of the listed class templates, a single-edit mutation of a base template (deletions and two-byte-character substitutions: all; free-ASCII-byte substitutions/insertions: quick a seeded sample of 40, thorough all), or is a short all-free ASCII string of at most 3 (+2 newlines) or 4 bytes) x every i64 timestamp for table / fixed-rule lookups; lookup half: every rule day the reader can accept (proved as a post-condition of the reader on each family) x every rule time x every timestamp of the DateTime range',
            'outside': 'byte strings outside the listed families (longer tables, footers that are more than one edit away from a template, 3/4-byte UTF-8 sequences in the footer); Offset::Local reading /etc/localtime (I/O)'},
    'C15': {'obligations': c15, 'bounds': 'full i32/u32/u64 domain of every parameter', 'outside': 'the rendered message text (std formatting of the tracked min/max/value fields)'},
    'C04': {'obligations': c04, 'bounds': 'all instants x all u32 counts; all Durations (u64 secs, u32 nanos < 10^9)', 'outside': ''},
}
