"""Models of the std functions the crate's integer code reaches. Each model is a few lines, is recorded in
ctx.models_used when it fires, and is exercised by the per-run differential validation against the native build."""
import re
import z3
from .sym import (IV, BV, Agg, En, Ref, Opaque, StrLit, StrSel, _str_alts, ArrIter, Closure, UNIT, T, F, mk_int, mk_bool, bv_of, zand, zor, znot,
                  ty_range, wrap, merge, MergeFail, Inconclusive, INT_TYPES)

INT = r'(?:[iu](?:8|16|32|64|128|size))'

def closure_fn(ex, clo):
    if not hasattr(ex, '_clo_index'):
        ex._clo_index = {}
        for n, f in ex.fns.items():
            if '{closure#' in n and f.params:
                t = f.locals.get(f.params[0], '')
                m = re.search(r'\{closure@[^}]*\}', t)
                if m: ex._clo_index[m.group(0)] = f
    f = ex._clo_index.get(clo.defname)
    if f is None: raise Inconclusive('closure body not found: %s' % clo.defname)
    return f

def call_closure(ex, clo, cargs, guard):
    """call closure value `clo` with positional args"""
    f = closure_fn(ex, clo)
    self_ty = f.locals.get(f.params[0], '')
    cell = ex.ctx.new_act(); ex.ctx.frames[cell] = {'c': clo, '__ref': {}, '__act': cell, '__fn': 'cell'}
    first = Ref(cell, 'c', []) if self_ty.startswith('&') else clo
    saved = ex.ctx.cur_guard
    ex.ctx.cur_guard = guard
    v, rg = ex.call_body(f, [first] + list(cargs), guard, frame_init={'__closure': clo})
    ex.ctx.cur_guard = saved
    return v, rg

def in_ranges(a, rng):
    """membership of an integer in a union of closed ranges, decided from its interval where possible"""
    if any(lo <= a.lo and a.hi <= hi for lo, hi in rng): return mk_bool(True)
    if all(a.hi < lo or a.lo > hi for lo, hi in rng): return mk_bool(False)
    return bv_of(zor(*[z3.And(a.t >= lo, a.t <= hi) for lo, hi in rng if not (a.hi < lo or a.lo > hi)]))

def cell(ex, v):
    c = ex.ctx.new_act(); ex.ctx.frames[c] = {'e': v, '__ref': {}, '__act': c, '__fn': 'cell'}
    return Ref(c, 'e', [])

def disc_is(en, k):
    d = en.disc
    if d.const() is not None: return mk_bool(d.const() == k)
    return BV(d.t == k)

def en2(disc_bv_true_is_1, payload0, payload1, ty):
    """enum with variants 0/1; discriminant 1 iff bv"""
    b = disc_bv_true_is_1
    if b.c is not None: d = mk_int(int(b.c), 'isize')
    else: d = IV(z3.If(b.t, 1, 0), 'isize', 0, 1)
    return En(d, {0: payload0, 1: payload1}, ty)

def struct_eq(ex, a, b):
    a = ex.deref(a); b = ex.deref(b)
    if isinstance(a, IV) and isinstance(b, IV): return ex.cmp_iv('Eq', a, b)
    if isinstance(a, BV) and isinstance(b, BV): return ex.binop('Eq', a, b)
    if isinstance(a, Agg) and isinstance(b, Agg) and len(a.f) == len(b.f):
        r = mk_bool(True)
        for x, y in zip(a.f, b.f): r = ex.binop('BitAnd', r, struct_eq(ex, x, y))
        return r
    if isinstance(a, En) and isinstance(b, En):
        r = ex.cmp_iv('Eq', a.disc, b.disc)
        for k in set(a.v) & set(b.v):
            if not a.v[k] and not b.v[k]: continue
            if len(a.v[k]) != len(b.v[k]): raise Inconclusive('struct_eq payload arity')
            pe = mk_bool(True)
            for x, y in zip(a.v[k], b.v[k]): pe = ex.binop('BitAnd', pe, struct_eq(ex, x, y))
            # payload equality matters only when both are this variant
            both = ex.binop('BitAnd', disc_is(a, k), disc_is(b, k))
            imp = ex.binop('BitOr', (mk_bool(not both.c) if both.c is not None else BV(z3.Not(both.t))), pe)
            r = ex.binop('BitAnd', r, imp)
        return r
    raise Inconclusive('struct_eq of %r %r' % (a, b))

def closure_call(ex, callee, args, guard, site):
    m = re.match(r'^<\{closure@.*\} as Fn(?:Once|Mut)?<.*>>::call(?:_once|_mut)?$', callee) or re.match(r'^<impl Fn.* as Fn(?:Once|Mut)?<.*>>::call(?:_once|_mut)?$', callee)
    if m:
        clo = ex.deref(args[0]); tup = args[1]
        if not isinstance(clo, Closure): raise Inconclusive('call of a non-closure callable %r' % (clo,))
        return call_closure(ex, clo, tup.f, guard)
    return None

PANIC_PREFIXES = ('core::panicking::', 'std::rt::begin_panic', 'std::rt::panic_display', 'std::rt::panic_', 'core::result::unwrap_failed', 'core::option::unwrap_failed',
                  'core::option::expect_failed', 'std::rt::panic_fmt', 'core::panicking::panic_fmt', 'panic_cold', 'core::slice::index::slice_',
                  'core::str::slice_error_fail', 'std::process::abort', 'panic_display', 'panic_explicit')

def std_model(ex, c, args, guard, site):
    ctx = ex.ctx
    r = _std_model(ex, c, args, guard, site)
    if r is not None:
        ctx.models_used.add(re.sub(r'::<.*', '', c) if not c.startswith('<') else c)
    return r

def _std_model(ex, c, args, guard, site):
    ctx = ex.ctx
    cs = ex.strip_generics(c)
    last = cs.split('::')[-1]
    if c.startswith(PANIC_PREFIXES) or '::panic_cold_' in c or cs.endswith('::panic_cold_explicit') or cs.endswith('::panic_cold_display'):
        msg = ''
        if args and isinstance(args[0], StrLit): msg = args[0].b.decode('utf8', 'replace')[:60]
        ctx.panics.append((guard, site, msg or last)); return None, F
    # the oracles' own floor division helpers (props/common.rs) are encoded directly as the floor pair (q, r);
    # oracle_floor_helpers_holds checks the Rust definitions against that meaning
    if last in ('floor_div', 'floor_mod', 'fdiv128', 'fmod128') and ('common::' in cs or cs == last) and not ex.opts.get('expand_floor_helpers'):
        a, b = args; cc = b.const()
        if cc is not None and cc > 0:
            from .sym import fdiv
            ty = a.ty
            if a.const() is not None:
                return mk_int(a.const() // cc if 'div' in last else a.const() % cc, ty), T
            q, r, ql, qh = fdiv(ctx, a, cc)
            return (IV(q, ty, ql, qh) if 'div' in last else IV(r, ty, 0, cc - 1)), T
    if last == 'bind_days_to_date':
        b = getattr(ctx, 'bindings', None)
        if b is None: b = ctx.bindings = {}
        b.setdefault('days_to_date', []).append((args[0], Agg([args[1], args[2], args[3]])))
        return UNIT, T
    if cs.endswith('common::assume') or cs == 'assume':
        a = args[0]
        # a direct comparison refines the intervals of its operands on the continuing path
        if getattr(a, 'cmp', None) is not None and ctx.act_stack:
            ex.refine_branch(ctx.frames[ctx.act_stack[-1]], a, True)
        return UNIT, a.t
    if cs in ('std::process::exit',):
        return None, F
    # ---- integer methods
    m = re.match(r'^core::num::<impl (%s)>::(\w+)$' % INT, cs)
    if m:
        ty, fn = m.groups(); a = args[0]; lo, hi = ty_range(ty)
        if fn == 'unsigned_abs':
            uty = 'u' + ty[1:]
            l = 0 if a.lo <= 0 <= a.hi else min(abs(a.lo), abs(a.hi))
            if a.lo >= 0: return IV(a.t, uty, a.lo, a.hi), T
            return IV(z3.If(a.t >= 0, a.t, -a.t), uty, l, max(abs(a.lo), abs(a.hi))), T
        if fn == 'is_negative': return ex.cmp_iv('Lt', a, mk_int(0, ty)), T
        if fn == 'is_positive': return ex.cmp_iv('Gt', a, mk_int(0, ty)), T
        if fn == 'abs':
            # debug: overflow panic at MIN; release: wraps to MIN
            if a.lo >= 0: return a, T
            if a.lo <= lo:
                if ex.opts.get('overflow_checks', True):
                    ctx.panics.append((zand(guard, a.t == lo), site, 'abs overflow'))
                    return IV(z3.If(a.t >= 0, a.t, -a.t), ty, 0, max(abs(a.lo + 1), abs(a.hi))), a.t != lo
                return IV(z3.If(a.t >= 0, a.t, z3.If(a.t == lo, a.t, -a.t)), ty, lo, hi), T
            return IV(z3.If(a.t >= 0, a.t, -a.t), ty, 0 if a.hi >= 0 else -a.hi, max(abs(a.lo), abs(a.hi))), T
        if fn in ('checked_add', 'checked_sub', 'checked_mul'):
            b = args[1]
            if fn == 'checked_mul' and a.const() is None and b.const() is None: raise Inconclusive('nonlinear checked_mul')
            t = {'checked_add': a.t + b.t, 'checked_sub': a.t - b.t, 'checked_mul': a.t * b.t}[fn]
            if fn == 'checked_add': l, h = a.lo + b.lo, a.hi + b.hi
            elif fn == 'checked_sub': l, h = a.lo - b.hi, a.hi - b.lo
            else:
                p = [a.lo * b.lo, a.lo * b.hi, a.hi * b.lo, a.hi * b.hi]; l, h = min(p), max(p)
            if l >= lo and h <= hi: ok = mk_bool(True)
            elif h < lo or l > hi: ok = mk_bool(False)
            else: ok = BV(z3.And(t >= lo, t <= hi))
            return en2(ok, [], [IV(t, ty, max(l, lo), min(h, hi))], 'Option'), T
        if fn in ('wrapping_add', 'wrapping_sub', 'wrapping_mul'):
            b = args[1]
            return ex.binop({'wrapping_add': 'Add', 'wrapping_sub': 'Sub', 'wrapping_mul': 'Mul'}[fn], a, b), T
        if fn in ('saturating_sub', 'saturating_add'):
            b = args[1]
            t = a.t - b.t if fn == 'saturating_sub' else a.t + b.t
            l, h = (a.lo - b.hi, a.hi - b.lo) if fn == 'saturating_sub' else (a.lo + b.lo, a.hi + b.hi)
            tt = z3.If(t < lo, lo, z3.If(t > hi, hi, t))
            return IV(tt, ty, max(l, lo) if l <= hi else hi, min(h, hi) if h >= lo else lo), T
        if fn == 'rem_euclid':
            b = args[1]; cc = b.const()
            if cc is None or cc <= 0: raise Inconclusive('rem_euclid by non-constant')
            from .sym import fdiv
            if a.const() is not None: return mk_int(a.const() % cc, ty), T
            q, r, _, _ = fdiv(ctx, a, cc); return IV(r, ty, 0, cc - 1), T
        if fn == 'div_euclid':
            b = args[1]; cc = b.const()
            if cc is None or cc <= 0: raise Inconclusive('div_euclid by non-constant')
            from .sym import fdiv
            if a.const() is not None: return mk_int(a.const() // cc, ty), T
            q, r, ql, qh = fdiv(ctx, a, cc); return IV(q, ty, ql, qh), T
        if fn == 'pow':
            base = a.const(); e = args[1]
            if base is None: raise Inconclusive('pow with symbolic base')
            cases = [(k, base ** k) for k in range(max(e.lo, 0), min(e.hi, 200) + 1)]
            if e.hi > 200: raise Inconclusive('pow exponent unbounded')
            ovf = [k for k, v in cases if v > hi or v < lo]
            good = [(k, v) for k, v in cases if lo <= v <= hi]
            okc = T
            if ovf:
                if ex.opts.get('overflow_checks', True):
                    ctx.panics.append((zand(guard, e.t >= min(ovf)), site, 'pow overflow')); okc = e.t < min(ovf)
                else:
                    w = hi - lo + 1
                    good = [(k, ((v - lo) % w) + lo) for k, v in cases]
            if not good: return None, F
            t = z3.IntVal(good[-1][1])
            for k, v in reversed(good[:-1]): t = z3.If(e.t == k, v, t)
            r = IV(t, ty, min(v for _, v in good), max(v for _, v in good))
            if r.const() is None:
                ctx.cases[r.t.get_id()] = [(e.t == k, v) for k, v in good]; ctx.keep.append(r.t)
            return r, okc
        if fn in ('min', 'max'):
            b = args[1]
            if fn == 'min': return IV(z3.If(a.t <= b.t, a.t, b.t), ty, min(a.lo, b.lo), min(a.hi, b.hi)), T
            return IV(z3.If(a.t >= b.t, a.t, b.t), ty, max(a.lo, b.lo), max(a.hi, b.hi)), T
        if fn in ('abs_diff',):
            b = args[1]
            uty = 'u' + ty[1:] if ty[0] == 'i' else ty
            d = a.t - b.t
            return IV(z3.If(d >= 0, d, -d), uty, 0, max(abs(a.hi - b.lo), abs(b.hi - a.lo))), T
        if fn in ('checked_div', 'checked_rem', 'checked_neg', 'checked_abs'):
            if fn == 'checked_neg':
                okb = ex.cmp_iv('Ne', a, mk_int(lo, ty)) if lo < 0 else ex.cmp_iv('Eq', a, mk_int(0, ty))
                return en2(okb, [], [IV(-a.t, ty, max(lo, -a.hi), min(hi, -a.lo))], 'Option'), T
            if fn == 'checked_abs':
                okb = ex.cmp_iv('Ne', a, mk_int(lo, ty))
                return en2(okb, [], [IV(z3.If(a.t >= 0, a.t, -a.t), ty, 0, max(abs(a.lo + 1), abs(a.hi)))], 'Option'), T
            b = args[1]
            if b.const() is None or b.const() == 0: raise Inconclusive('%s by a symbolic or zero divisor' % fn)
            r = ex.binop('Div' if fn == 'checked_div' else 'Rem', a, b)
            okb = mk_bool(True) if not (lo < 0 and b.const() == -1) else ex.cmp_iv('Ne', a, mk_int(lo, ty))
            return en2(okb, [], [r], 'Option'), T
        if fn in ('overflowing_add', 'overflowing_sub', 'overflowing_mul'):
            b = args[1]
            r = ex.binop({'overflowing_add': 'AddWithOverflow', 'overflowing_sub': 'SubWithOverflow', 'overflowing_mul': 'MulWithOverflow'}[fn], a, b)
            return r, T
        if fn == 'saturating_mul':
            b = args[1]
            if a.const() is None and b.const() is None: raise Inconclusive('nonlinear saturating_mul')
            t = a.t * b.t
            p_ = [a.lo * b.lo, a.lo * b.hi, a.hi * b.lo, a.hi * b.hi]
            return IV(z3.If(t < lo, lo, z3.If(t > hi, hi, t)), ty, max(min(p_), lo), min(max(p_), hi)), T
        if fn == 'clamp':
            l_, h_ = args[1], args[2]
            ctx.panics.append((zand(guard, l_.t > h_.t), site, 'clamp: min > max'))
            return IV(z3.If(a.t < l_.t, l_.t, z3.If(a.t > h_.t, h_.t, a.t)), ty, max(a.lo, l_.lo), min(a.hi, h_.hi)) if max(a.lo, l_.lo) <= min(a.hi, h_.hi) else IV(z3.If(a.t < l_.t, l_.t, z3.If(a.t > h_.t, h_.t, a.t)), ty, lo, hi), l_.t <= h_.t
        if fn in ('is_power_of_two', 'count_ones', 'leading_zeros', 'trailing_zeros') and a.const() is not None:
            v = a.const()
            if fn == 'is_power_of_two': return mk_bool(v > 0 and v & (v - 1) == 0), T
            if fn == 'count_ones': return mk_int(bin(v % (1 << INT_TYPES[ty][0])).count('1'), 'u32'), T
        if fn == 'signum':
            return IV(z3.If(a.t > 0, 1, z3.If(a.t < 0, -1, 0)), ty, -1 if a.lo < 0 else (0 if a.lo == 0 else 1), 1 if a.hi > 0 else (0 if a.hi == 0 else -1)), T
        if fn in ('from_be_bytes', 'from_le_bytes'):
            arr = ex.deref(a); fs = arr.f if fn == 'from_be_bytes' else arr.f[::-1]
            w, signed = INT_TYPES[ty]
            t = z3.IntVal(0); l = 0; h = 0
            for b_ in fs: t = t * 256 + b_.t; l = l * 256 + b_.lo; h = h * 256 + b_.hi
            if signed:
                top = fs[0]
                t = z3.If(top.t >= 128, t - (1 << w), t)
                return IV(t, ty, lo, hi), T
            return IV(t, ty, l, h), T
    m = re.match(r'^(?:core::)?char::methods::<impl char>::(is_ascii_digit|is_ascii|is_ascii_alphabetic|is_ascii_uppercase|is_ascii_lowercase|is_ascii_alphanumeric|is_ascii_whitespace)$', cs)
    if m:
        a = ex.deref(args[0]); fn = m.group(1)
        rng = {'is_ascii_digit': [(48, 57)], 'is_ascii': [(0, 127)], 'is_ascii_alphabetic': [(65, 90), (97, 122)], 'is_ascii_uppercase': [(65, 90)], 'is_ascii_lowercase': [(97, 122)],
               'is_ascii_alphanumeric': [(48, 57), (65, 90), (97, 122)], 'is_ascii_whitespace': [(9, 10), (12, 13), (32, 32)]}[fn]
        return in_ranges(a, rng), T
    m = re.match(r'^<(%s) as Ord>::(min|max)$' % INT, cs) or re.match(r'^std::cmp::Ord::(min|max)$', cs)
    if m and len(args) == 2 and isinstance(args[0], IV):
        a, b = args; fn = m.groups()[-1]
        if fn == 'min': return IV(z3.If(a.t <= b.t, a.t, b.t), a.ty, min(a.lo, b.lo), min(a.hi, b.hi)), T
        return IV(z3.If(a.t >= b.t, a.t, b.t), a.ty, max(a.lo, b.lo), max(a.hi, b.hi)), T
    # ---- conversions
    m = re.match(r'^<(%s) as TryInto<(%s)>>::try_into$' % (INT, INT), cs) or re.match(r'^<(%s) as TryFrom<(%s)>>::try_from$' % (INT, INT), cs)
    if m:
        a = args[0]
        dst = m.group(2) if 'TryInto' in cs else m.group(1)
        lo, hi = ty_range(dst)
        if a.lo >= lo and a.hi <= hi: ok = mk_bool(True)
        elif a.hi < lo or a.lo > hi: ok = mk_bool(False)
        else: ok = BV(z3.And(a.t >= lo, a.t <= hi))
        notok = mk_bool(not ok.c) if ok.c is not None else BV(z3.Not(ok.t))
        return en2(notok, [IV(a.t, dst, max(a.lo, lo), min(a.hi, hi))], [Opaque('TryFromIntError')], 'Result'), T
    m = re.match(r'^<(%s) as (?:From|Into)<(%s)>>::(?:from|into)$' % (INT, INT), cs)
    if m:
        a = args[0]; dst = m.group(1) if '::from' in cs else m.group(2)
        return ex.cast(a, dst), T
    m = re.match(r'^<(%s) as From<bool>>::from$' % INT, cs)
    if m: return ex.cast(args[0], m.group(1)), T
    m = re.match(r'^<(.+) as (From|Into)<(.+)>>::(from|into)$', cs)
    if m and m.group(1) == m.group(3): return args[0], T
    m = re.match(r'^<&*str as PartialEq(?:<&*str>)?>::(eq|ne)$', cs)
    if m:
        a, b = ex.deref(args[0]), ex.deref(args[1])
        if isinstance(a, StrLit) and isinstance(b, StrLit):
            return mk_bool((a.b == b.b) == (m.group(1) == 'eq')), T
        if isinstance(a, (StrLit, StrSel)) and isinstance(b, (StrLit, StrSel)):
            e = zor(*[zand(c1, c2) for c1, b1 in _str_alts(a) for c2, b2 in _str_alts(b) if b1 == b2])
            return bv_of(e if m.group(1) == 'eq' else znot(e)), T
    # structural equality of std value types built from integers (Ordering, Option<..>, tuples)
    m = re.match(r'^<&*((?:std::cmp::)?Ordering|Option<.*>|\(.*\)) as PartialEq>::(eq|ne)$', cs)
    if m:
        e = struct_eq(ex, ex.deref(args[0]), ex.deref(args[1]))
        if m.group(2) == 'ne': e = mk_bool(not e.c) if e.c is not None else BV(z3.Not(e.t))
        return e, T
    m = re.match(r'^<(%s|bool|char) as Clone>::clone$' % INT, cs)
    if m: return ex.deref(args[0]), T
    m = re.match(r'^<(%s) as Default>::default$' % INT, cs)
    if m: return mk_int(0, m.group(1)), T
    if cs == '<bool as Default>::default': return mk_bool(False), T
    # ---- Option / Result
    m = re.match(r'^(Option|Result)::(\w+)$', cs)
    if m:
        kind, fn = m.groups(); o = ex.deref(args[0])
        if not isinstance(o, En): raise Inconclusive('%s::%s on %r' % (kind, fn, o))
        good = 1 if kind == 'Option' else 0; bad = 1 - good
        isgood = disc_is(o, good)
        payload = o.v.get(good)
        if fn in ('unwrap', 'expect'):
            if isgood.c is True: return payload[0], T
            ctx.panics.append((zand(guard, znot(isgood.t)), site, fn + ' on ' + ('None' if kind == 'Option' else 'Err')))
            if isgood.c is False or payload is None: return None, F
            return payload[0], isgood.t
        if fn in ('unwrap_err', 'expect_err'):
            isbad = disc_is(o, bad)
            if isbad.c is True: return o.v[bad][0], T
            ctx.panics.append((zand(guard, znot(isbad.t)), site, fn))
            if isbad.c is False: return None, F
            return o.v[bad][0], isbad.t
        if fn in ('is_some', 'is_ok'): return isgood, T
        if fn in ('is_none', 'is_err'): return disc_is(o, bad), T
        if fn == 'unwrap_or':
            if isgood.c is True: return payload[0], T
            if isgood.c is False: return args[1], T
            return merge(isgood, payload[0], args[1]), T
        if fn == 'unwrap_or_else':
            clo = args[1]
            if isgood.c is True: return payload[0], T
            cargs = [] if kind == 'Option' else [o.v.get(bad, [Opaque('e')])[0]]
            v, rg = call_closure(ex, clo, cargs, zand(guard, znot(isgood.t)))
            if isgood.c is False: return v, rg
            if z3.is_false(rg): return payload[0], isgood.t
            return merge(isgood, payload[0], v), zor(isgood.t, rg)
        if fn == 'map_err':
            clo = args[1]
            if isgood.c is True or not isinstance(clo, Closure): return En(o.disc, {0: payload, 1: [Opaque('e')]}, 'Result'), T
            v, rg = call_closure(ex, clo, [o.v.get(1, [Opaque('e')])[0]], zand(guard, znot(isgood.t)))
            return En(o.disc, {0: payload, 1: [v]}, 'Result'), zor(isgood.t, rg)
        if fn == 'map':
            clo = args[1]
            if isgood.c is False: return o, T
            v, rg = call_closure(ex, clo, [payload[0]], zand(guard, isgood.t))
            nv = dict(o.v); nv[good] = [v]
            return En(o.disc, nv, kind), zor(znot(isgood.t), rg)
        if fn == 'ok_or_else' or fn == 'ok_or':
            # Option -> Result: Some(v) -> Ok(v); None -> Err(f())
            if fn == 'ok_or': ev, rg = args[1], T
            elif isgood.c is True: ev, rg = Opaque('e'), T
            else: ev, rg = call_closure(ex, args[1], [], zand(guard, znot(isgood.t)))
            d = o.disc
            nd = mk_int(1 - d.const(), 'isize') if d.const() is not None else IV(1 - d.t, 'isize', 0, 1)
            return En(nd, {0: payload, 1: [ev]}, 'Result'), zor(isgood.t, rg)
        if fn == 'ok':
            d = o.disc
            nd = mk_int(1 - d.const(), 'isize') if d.const() is not None else IV(1 - d.t, 'isize', 0, 1)
            return En(nd, {0: [], 1: payload}, 'Option'), T
        if fn == 'and_then':
            clo = args[1]
            if isgood.c is False: return o, T
            v, rg = call_closure(ex, clo, [payload[0]], zand(guard, isgood.t))
            if isgood.c is True: return v, rg
            other = En(mk_int(bad, 'isize'), {bad: o.v.get(bad, [])}, kind)
            return merge(isgood, v, other), zor(znot(isgood.t), rg)
        if fn in ('map_or', 'map_or_else'):
            # map_or(default, f) / map_or_else(default_fn, f)
            if fn == 'map_or': dv, drg = args[1], T
            elif isgood.c is True: dv, drg = None, T
            else: dv, drg = call_closure(ex, args[1], [] if kind == 'Option' else [o.v.get(bad, [Opaque('e')])[0]], zand(guard, znot(isgood.t)))
            if isgood.c is False: return dv, drg
            v, rg = call_closure(ex, args[2], [payload[0]], zand(guard, isgood.t))
            if isgood.c is True: return v, rg
            return merge(isgood, v, dv), T
        if fn in ('or', 'or_else') and kind == 'Option':
            if isgood.c is True: return o, T
            alt, rg = (args[1], T) if fn == 'or' else call_closure(ex, args[1], [], zand(guard, znot(isgood.t)))
            if isgood.c is False: return alt, rg
            return merge(isgood, o, alt), T
        if fn == 'and' and kind == 'Option':
            none = En(mk_int(0, 'isize'), {0: []}, 'Option')
            if isgood.c is True: return args[1], T
            if isgood.c is False: return none, T
            return merge(isgood, args[1], none), T
        if fn == 'filter' and kind == 'Option':
            if isgood.c is False: return o, T
            keep, rg = call_closure(ex, args[1], [cell(ex, payload[0])], zand(guard, isgood.t))
            both = ex.binop('BitAnd', isgood, keep)
            return en2(both, [], payload, 'Option'), T
        if fn in ('is_some_and', 'is_ok_and', 'is_none_or'):
            if isgood.c is False: return mk_bool(fn == 'is_none_or'), T
            v, rg = call_closure(ex, args[1], [payload[0]], zand(guard, isgood.t))
            if fn == 'is_none_or': return ex.binop('BitOr', (mk_bool(not isgood.c) if isgood.c is not None else BV(z3.Not(isgood.t))), v), T
            return ex.binop('BitAnd', isgood, v), T
        if fn == 'unwrap_or_default':
            dflt = None
            if payload and isinstance(payload[0], IV): dflt = mk_int(0, payload[0].ty)
            elif payload and isinstance(payload[0], BV): dflt = mk_bool(False)
            if dflt is None: raise Inconclusive('unwrap_or_default of a non-scalar')
            if isgood.c is True: return payload[0], T
            if isgood.c is False: return dflt, T
            return merge(isgood, payload[0], dflt), T
        if fn == 'err' and kind == 'Result':
            return En(o.disc, {0: [], 1: o.v.get(1, [Opaque('e')])}, 'Option'), T
        if fn == 'copied' or fn == 'cloned':
            nv = dict(o.v)
            if good in nv and nv[good]: nv[good] = [ex.deref(nv[good][0])]
            return En(o.disc, nv, kind), T
        if fn == 'as_ref' or fn == 'as_mut': return o, T
    m = re.match(r'^<(Result|Option)<.*> as Try>::branch$', cs)
    if m:
        r = args[0]
        if m.group(1) == 'Result':   # Continue(v)=0 / Break(Err(e))=1
            return En(r.disc, {0: r.v.get(0), 1: [En(mk_int(1, 'isize'), {1: r.v.get(1, [Opaque('e')])}, 'Result')]}, 'ControlFlow'), T
        d = r.disc
        nd = mk_int(1 - d.const(), 'isize') if d.const() is not None else IV(1 - d.t, 'isize', 0, 1)
        return En(nd, {0: r.v.get(1), 1: [En(mk_int(0, 'isize'), {0: []}, 'Option')]}, 'ControlFlow'), T
    m = re.match(r'^<(Result|Option)<.*> as FromResidual<.*>>::from_residual$', cs)
    if m:
        r = args[0]
        if m.group(1) == 'Result':
            return En(mk_int(1, 'isize'), {1: r.v.get(1, [Opaque('e')])}, 'Result'), T
        return En(mk_int(0, 'isize'), {0: []}, 'Option'), T
    m = re.match(r'^(?:core::)?bool::<impl bool>::(then_some|then)$', cs) or re.match(r'^core::bool::<impl bool>::(then_some|then)$', cs)
    if m:
        b = args[0]
        if m.group(1) == 'then_some': v, rg = args[1], T
        elif b.c is False: v, rg = None, T
        else: v, rg = call_closure(ex, args[1], [], zand(guard, b.t))
        if b.c is False: return En(mk_int(0, 'isize'), {0: []}, 'Option'), T
        return en2(b, [], [v], 'Option'), T
    m = re.match(r'^(?:std::cmp::)?Ordering::(is_lt|is_le|is_gt|is_ge|is_eq|is_ne|reverse|then)$', cs)
    if m:
        a = ex.deref(args[0]); fn = m.group(1)
        if fn == 'reverse': return IV(-a.t, 'i8', -a.hi, -a.lo), T
        if fn == 'then':
            b = args[1]; return IV(z3.If(a.t == 0, b.t, a.t), 'i8', -1, 1), T
        return bv_of({'is_lt': a.t < 0, 'is_le': a.t <= 0, 'is_gt': a.t > 0, 'is_ge': a.t >= 0, 'is_eq': a.t == 0, 'is_ne': a.t != 0}[fn]), T
    m = re.match(r'^<\((.*)\) as PartialOrd>::(lt|le|gt|ge|partial_cmp)$', cs) or re.match(r'^<\((.*)\) as Ord>::(cmp)$', cs)
    if m:
        a, b = ex.deref(args[0]), ex.deref(args[1])
        if isinstance(a, Agg) and isinstance(b, Agg) and len(a.f) == len(b.f) and all(isinstance(ex.deref(x), IV) for x in a.f + b.f):
            lt = F; eq = T
            for x, y in zip(a.f, b.f):
                x, y = ex.deref(x), ex.deref(y)
                lt = zor(lt, zand(eq, x.t < y.t)); eq = zand(eq, x.t == y.t)
            fn = m.group(2)
            if fn in ('cmp', 'partial_cmp'):
                o = IV(z3.If(lt, -1, z3.If(eq, 0, 1)), 'i8', -1, 1)
                return (o if fn == 'cmp' else En(mk_int(1, 'isize'), {1: [o]}, 'Option')), T
            return bv_of({'lt': lt, 'le': zor(lt, eq), 'gt': znot(zor(lt, eq)), 'ge': znot(lt)}[fn]), T
    m = re.match(r'^<(%s) as Ord>::clamp$' % INT, cs) or re.match(r'^std::cmp::Ord::clamp$', cs)
    if m and len(args) == 3 and all(isinstance(x, IV) for x in args):
        a, l_, h_ = args
        ctx.panics.append((zand(guard, l_.t > h_.t), site, 'clamp: min > max'))
        return IV(z3.If(a.t < l_.t, l_.t, z3.If(a.t > h_.t, h_.t, a.t)), a.ty, min(a.lo, l_.lo), max(a.hi, h_.hi)), l_.t <= h_.t
    # ---- comparisons
    m = re.match(r'^<&*(%s|char|bool) as (?:Partial)?Ord>::(cmp|partial_cmp)$' % INT, cs)
    if m:
        a = ex.deref(args[0]); b = ex.deref(args[1])
        o = IV(z3.If(a.t < b.t, -1, z3.If(a.t == b.t, 0, 1)), 'i8', -1, 1)
        if m.group(2) == 'cmp': return o, T
        return En(mk_int(1, 'isize'), {1: [o]}, 'Option'), T
    m = re.match(r'^<&?(%s) as (Add|Sub|Mul)<&?(?:%s)>>::(add|sub|mul)$' % (INT, INT), cs)
    if m:
        # by-reference operator impls forward to the primitive operator, which inherits the crate's overflow-checks setting
        a = ex.deref(args[0]); b = ex.deref(args[1])
        if ex.opts.get('overflow_checks', True):
            r = ex.binop(m.group(2) + 'WithOverflow', a, b)
            val, ovf = r.f
            if ovf.c is True: ctx.panics.append((guard, site, 'attempt to %s with overflow' % m.group(3))); return None, F
            if ovf.c is False: return val, T
            ctx.panics.append((zand(guard, ovf.t), site, 'attempt to %s with overflow' % m.group(3)))
            return val, znot(ovf.t)
        return ex.binop(m.group(2), a, b), T
    m = re.match(r'^<&*(%s|char) as PartialOrd>::(lt|le|gt|ge)$' % INT, cs)
    if m:
        a = ex.deref(args[0]); b = ex.deref(args[1])
        return ex.cmp_iv({'lt': 'Lt', 'le': 'Le', 'gt': 'Gt', 'ge': 'Ge'}[m.group(2)], a, b), T
    m = re.match(r'^<&*(%s|char|bool) as PartialEq(?:<&*(?:%s|char|bool)>)?>::(eq|ne)$' % (INT, INT), cs)
    if m:
        a = ex.deref(args[0]); b = ex.deref(args[1])
        return ex.binop('Eq' if m.group(2) == 'eq' else 'Ne', a, b), T
    m = re.match(r'^<&?(?:[\w:]*::)?(\w+) as PartialOrd>::(ge|gt|le|lt)$', cs)
    if m and (m.group(1), 'PartialOrd', 'partial_cmp') in ex.impl:
        pc = ex.impl[(m.group(1), 'PartialOrd', 'partial_cmp')]
        o, rg = ex.call_body(ex.fns[pc], args, guard)
        ordv = o.v[1][0]
        t = {'ge': ordv.t >= 0, 'gt': ordv.t > 0, 'le': ordv.t <= 0, 'lt': ordv.t < 0}[m.group(2)]
        return BV(t), rg
    m = re.match(r'^<&?(?:[\w:]*::)?(\w+) as PartialEq>::ne$', cs)
    if m and (m.group(1), 'PartialEq', 'eq') in ex.impl and (m.group(1), 'PartialEq', 'ne') not in ex.impl:
        e, rg = ex.call_body(ex.fns[ex.impl[(m.group(1), 'PartialEq', 'eq')]], args, guard)
        return (mk_bool(not e.c) if e.c is not None else BV(z3.Not(e.t))), rg
    m = re.match(r'^std::cmp::(min|max)$', cs)
    if m:
        a, b = args
        da, db = ex.deref(a), ex.deref(b)
        if isinstance(da, IV) and isinstance(db, IV):
            if m.group(1) == 'min': return IV(z3.If(da.t <= db.t, da.t, db.t), da.ty, min(da.lo, db.lo), min(da.hi, db.hi)), T
            return IV(z3.If(da.t >= db.t, da.t, db.t), da.ty, max(da.lo, db.lo), max(da.hi, db.hi)), T
        gm = re.search(r'::<&?(?:[\w:]*::)?(\w+)>$', c)
        if gm and (gm.group(1), 'Ord', 'cmp') in ex.impl:
            o, rg = ex.call_body(ex.fns[ex.impl[(gm.group(1), 'Ord', 'cmp')]], [a, b], guard)
            gt = BV(o.t > 0)
            # min: Greater => v2 else v1 ; max: Greater => v1 else v2   (values are references: merge the referents)
            x, y = (db, da) if m.group(1) == 'min' else (da, db)
            try: v = merge(gt, x, y)
            except MergeFail as e: raise Inconclusive('cmp::min/max merge: %s' % e)
            return cell(ex, v) if isinstance(a, Ref) else v, rg
    # ---- slices / arrays over constant tables
    if re.match(r'^core::slice::<impl \[.*\]>::iter$', cs):
        return ArrIter(ex.deref(args[0]), 0), T
    if re.match(r'^<std::slice::Iter<.*> as IntoIterator>::into_iter$', cs): return args[0], T
    if re.match(r'^<std::slice::Iter<.*> as Iterator>::next$', cs):
        r = args[0]; it = ex.deref(r)
        if isinstance(it, ArrIter):
            if it.idx < len(it.arr.f):
                ex.write_ref(r, [], ArrIter(it.arr, it.idx + 1))
                return En(mk_int(1, 'isize'), {1: [cell(ex, it.arr.f[it.idx])]}, 'Option'), T
            return En(mk_int(0, 'isize'), {0: []}, 'Option'), T
    # ---- RangeInclusive<int> iteration with concrete bounds
    m = re.match(r'^<(?:std::ops::)?RangeInclusive<(%s)> as IntoIterator>::into_iter$' % INT, cs) or re.match(r'^<std::ops::Range<(%s)> as IntoIterator>::into_iter$' % INT, cs)
    if m: return args[0], T
    m = re.match(r'^(?:std::ops::)?RangeInclusive::<(%s)>::new$' % INT, c)
    if m: return Agg([args[0], args[1], mk_bool(False)], 'struct:RangeInclusive'), T
    m = re.match(r'^<RangeInclusive<(%s)> as Iterator>::next$' % INT, cs) or re.match(r'^<std::ops::RangeInclusive<(%s)> as Iterator>::next$' % INT, cs) \
        or re.match(r'^std::iter::range::<impl Iterator for RangeInclusive<(%s)>>::next$' % INT, cs)
    if m:
        r = args[0]; rg_ = ex.deref(r); ty = m.group(1)
        s_, e_, ex_ = rg_.f
        sc, ec = s_.const(), e_.const()
        if sc is None or ec is None or ex_.c is None: raise Inconclusive('RangeInclusive::next with symbolic bounds')
        if ex_.c or sc > ec: return En(mk_int(0, 'isize'), {0: []}, 'Option'), T
        if sc < ec: ex.write_ref(r, [], Agg([mk_int(sc + 1, ty), e_, mk_bool(False)], rg_.kind))
        else: ex.write_ref(r, [], Agg([s_, e_, mk_bool(True)], rg_.kind))
        return En(mk_int(1, 'isize'), {1: [mk_int(sc, ty)]}, 'Option'), T
    m = re.match(r'^<std::ops::Range<(%s)> as Iterator>::next$' % INT, cs) or re.match(r'^std::iter::range::<impl Iterator for std::ops::Range<(%s)>>::next$' % INT, cs)
    if m:
        r = args[0]; rg_ = ex.deref(r); ty = m.group(1)
        s_, e_ = rg_.f
        sc, ec = s_.const(), e_.const()
        if sc is None or ec is None: raise Inconclusive('Range::next with symbolic bounds')
        if sc >= ec: return En(mk_int(0, 'isize'), {0: []}, 'Option'), T
        ex.write_ref(r, [], Agg([mk_int(sc + 1, ty), e_], rg_.kind))
        return En(mk_int(1, 'isize'), {1: [mk_int(sc, ty)]}, 'Option'), T
    m = re.match(r'^<(?:std::ops::)?(Range|RangeInclusive)<(%s)> as Iterator>::(all|any)$' % INT, cs)
    if m:
        rg_ = ex.deref(args[0]); ty = m.group(2)
        lo_, hi_ = rg_.f[0].const(), rg_.f[1].const()
        if lo_ is None or hi_ is None: raise Inconclusive('Range::all/any with symbolic bounds')
        if m.group(1) == 'RangeInclusive': hi_ += 1
        if hi_ - lo_ > 256: raise Inconclusive('Range::all/any over more than 256 values')
        acc = []
        for i in range(lo_, hi_):
            v, rg2 = call_closure(ex, args[1], [mk_int(i, ty)], guard)
            acc.append(v.t)
        return bv_of(zand(*acc) if m.group(3) == 'all' else zor(*acc)), T
    m = re.match(r'^(?:std::ops::)?(RangeInclusive|Range)::<(%s)>::contains::<(%s)>$' % (INT, INT), c)
    if m:
        rg_ = ex.deref(args[0]); x = ex.deref(args[1])
        if m.group(1) == 'RangeInclusive': return bv_of(z3.And(rg_.f[0].t <= x.t, x.t <= rg_.f[1].t)), T
        return bv_of(z3.And(rg_.f[0].t <= x.t, x.t < rg_.f[1].t)), T
    # ---- formatting: opaque (messages are not the subject)
    if (c.startswith('core::fmt::') or cs.startswith('Arguments::') or cs.startswith('std::fmt::Arguments') or cs in ('format', 'std::fmt::format', 'alloc::fmt::format')
            or cs.startswith('core::fmt::rt::') or cs.startswith('std::fmt::rt::') or cs.startswith('Argument::')
            or cs.startswith('must_use') or cs.endswith('::to_string') or cs.endswith('ToString>::to_string') or cs.endswith('::to_owned') and isinstance(ex.deref(args[0]), (StrLit, Opaque))
            or cs.startswith('std::hint::must_use') or cs == 'String::new' or cs.endswith('<String as From<&str>>::from')):
        return Opaque('fmt'), T
    if re.match(r'^<String as (Clone|Default)>::(clone|default)$', cs): return Opaque('string'), T
    # ---- Duration: (secs: u64, nanos: u32 < 10^9)
    m = re.match(r'^Duration::(\w+)$', cs) or re.match(r'^std::time::Duration::(\w+)$', cs)
    if m:
        fn = m.group(1)
        if fn == 'from_secs': return Agg([args[0], mk_int(0, 'u32')], 'struct:Duration'), T
        if fn == 'from_nanos':
            n = args[0]; q = ex.binop('Div', n, mk_int(10 ** 9, 'u64')); r = ex.binop('Rem', n, mk_int(10 ** 9, 'u64'))
            return Agg([q, IV(r.t, 'u32', r.lo, r.hi)], 'struct:Duration'), T
        if fn == 'from_millis':
            n = args[0]; q = ex.binop('Div', n, mk_int(1000, 'u64')); r = ex.binop('Rem', n, mk_int(1000, 'u64'))
            return Agg([q, IV(r.t * 10 ** 6, 'u32', r.lo * 10 ** 6, r.hi * 10 ** 6)], 'struct:Duration'), T
        if fn == 'new':
            s_, n = args
            if n.hi < 10 ** 9: return Agg([s_, n], 'struct:Duration'), T
            q = ex.binop('Div', n, mk_int(10 ** 9, 'u32')); r = ex.binop('Rem', n, mk_int(10 ** 9, 'u32'))
            tot = IV(s_.t + q.t, 'u64', s_.lo + q.lo, s_.hi + q.hi)
            if tot.hi > 2 ** 64 - 1:
                ctx.panics.append((zand(guard, tot.t > 2 ** 64 - 1), site, 'overflow in Duration::new'))
                return Agg([IV(tot.t, 'u64', tot.lo, 2 ** 64 - 1), r], 'struct:Duration'), tot.t <= 2 ** 64 - 1
            return Agg([tot, r], 'struct:Duration'), T
        d = ex.deref(args[0])
        if fn == 'as_secs': return d.f[0], T
        if fn == 'subsec_nanos': return d.f[1], T
        if fn == 'as_nanos':
            return IV(d.f[0].t * 10 ** 9 + d.f[1].t, 'u128', d.f[0].lo * 10 ** 9 + d.f[1].lo, d.f[0].hi * 10 ** 9 + d.f[1].hi), T
        if fn == 'as_millis':
            q = ex.binop('Div', d.f[1], mk_int(10 ** 6, 'u32'))
            return IV(d.f[0].t * 1000 + q.t, 'u128', d.f[0].lo * 1000 + q.lo, d.f[0].hi * 1000 + q.hi), T
    if cs == '<Duration as Add>::add' or cs == '<std::time::Duration as Add>::add':
        a, b = ex.deref(args[0]), ex.deref(args[1])
        n = IV(a.f[1].t + b.f[1].t, 'u32', a.f[1].lo + b.f[1].lo, a.f[1].hi + b.f[1].hi)
        carry = ex.cmp_iv('Ge', n, mk_int(10 ** 9, 'u32'))
        s_ = IV(a.f[0].t + b.f[0].t + (z3.If(carry.t, 1, 0) if carry.c is None else int(carry.c)), 'u64',
                a.f[0].lo + b.f[0].lo, a.f[0].hi + b.f[0].hi + 1)
        ctx.panics.append((zand(guard, s_.t > 2 ** 64 - 1), site, 'overflow when adding durations'))
        nn = IV(n.t - (z3.If(carry.t, 10 ** 9, 0) if carry.c is None else (10 ** 9 if carry.c else 0)), 'u32', 0, 10 ** 9 - 1)
        return Agg([IV(s_.t, 'u64', s_.lo, min(s_.hi, 2 ** 64 - 1)), nn], 'struct:Duration'), s_.t <= 2 ** 64 - 1
    # ---- the clock: an arbitrary instant at or after 1970-01-01 (nondeterministic stub)
    if cs in ('SystemTime::now', 'std::time::SystemTime::now'):
        s_ = ctx.fresh('now_s'); n = ctx.fresh('now_n')
        hi = ex.opts.get('clock_max_secs', 2 ** 63 - 1)
        ctx.side += [s_ >= 0, s_ <= hi, n >= 0, n < 10 ** 9]
        return Agg([IV(s_, 'u64', 0, hi), IV(n, 'u32', 0, 10 ** 9 - 1)], 'struct:SystemTime'), T
    if cs in ('SystemTime::duration_since', 'std::time::SystemTime::duration_since'):
        st = ex.deref(args[0])
        return En(mk_int(0, 'isize'), {0: [Agg(st.f, 'struct:Duration')], 1: [Opaque('SystemTimeError')]}, 'Result'), T
    return None

# ------------------------------------------------------------------ proven contracts as abstractions
class Abstraction:
    """Replace calls of a crate function by uninterpreted-function applications constrained by a contract predicate
    (a Rust fn in props/ executed from its own MIR). Only legal when the contract is an obligation discharged in the same run."""
    def __init__(self, fn_last, contract_last, results, flatten=None, build=None, only_if=None, always=False):
        self.fn_last = fn_last; self.contract_last = contract_last
        self.results = results          # list of (name, type, lo, hi) or (name, 'bool')
        self.flatten = flatten; self.build = build; self.only_if = only_if
        self.always = always            # also inside contract predicates (pure oracle functions taken as uninterpreted)
        self.uses = 0
    def applies(self, name):
        return self.only_if(name) if self.only_if else True
    def apply(self, ex, name, args, guard, site):
        ctx = ex.ctx
        flat = self.flatten(ex, args) if self.flatten else [ex.deref(a) for a in args]
        for a in flat:
            if isinstance(a, BV):
                raise Inconclusive('abstraction %s: bool argument' % self.fn_last)
            if not isinstance(a, IV): raise Inconclusive('abstraction %s: non-integer argument %r' % (self.fn_last, a))
        I = z3.IntSort()
        res = []
        for spec in self.results:
            if spec[1] == 'bool':
                uf = z3.Function('A_%s_%s' % (self.fn_last, spec[0]), *([I] * len(flat) + [z3.BoolSort()]))
                res.append(BV(uf(*[a.t for a in flat]))); continue
            (nm, ty, lo, hi) = spec
            uf = z3.Function('A_%s_%s' % (self.fn_last, nm), *([I] * (len(flat) + 1)))
            t = uf(*[a.t for a in flat]) if flat else uf()
            ctx.side += [t >= lo, t <= hi]
            res.append(IV(t, ty, lo, hi))
        if self.contract_last is None:
            # uninterpreted callee: congruence only (result ranges are the type ranges)
            self.uses += 1
            ctx.abstractions_used = getattr(ctx, 'abstractions_used', set()) | {self.fn_last + ' (uninterpreted)'}
            out = self.build(ex, args, res) if self.build else (res[0] if len(res) == 1 else Agg(res))
            return out, T
        cands = ex.by_last.get(self.contract_last, [])
        if len(cands) != 1: raise Inconclusive('contract fn %s not found' % self.contract_last)
        cf = ex.fns[cands[0]]
        ex.in_contract += 1
        saved = ctx.cur_guard; np_ = len(ctx.panics); nu = len(ctx.unwound)
        ctx.cur_guard = guard
        holds, rg = ex.call_body(cf, flat + res, guard)
        ex.in_contract -= 1
        ctx.cur_guard = saved
        # panics inside the contract predicate would make it partial: they are separate (oracle-sanity) obligations
        inner = ctx.panics[np_:]; del ctx.panics[np_:]
        ctx.contract_panics = getattr(ctx, 'contract_panics', []) + inner
        del ctx.unwound[nu:]
        ctx.side.append(z3.Implies(guard, z3.And(rg, holds.t)))
        self.uses += 1
        ctx.abstractions_used = getattr(ctx, 'abstractions_used', set()) | {self.fn_last}
        out = self.build(ex, args, res) if self.build else (res[0] if len(res) == 1 else Agg(res))
        return out, T

class BoundAbstraction:
    """days_to_date as an uninterpreted function D with point constraints D(key) = triple for every binding the
    property function declares (bind_days_to_date). A syntactically matching argument is answered directly."""
    def __init__(self, fn_last):
        self.fn_last = fn_last; self.uses = 0
    def applies(self, name): return True
    def apply(self, ex, name, args, guard, site):
        ctx = ex.ctx
        a = ex.deref(args[0])
        binds = getattr(ctx, 'bindings', {}).get(self.fn_last, [])
        ctx.abstractions_used = getattr(ctx, 'abstractions_used', set()) | {self.fn_last + ' (bound by the property function)'}
        self.uses += 1
        for key, res in binds:
            dlt = z3.simplify(a.t - key.t)
            if z3.is_int_value(dlt) and dlt.as_long() == 0: return res, T
        if not binds: raise Inconclusive('%s called without any binding' % self.fn_last)
        I = z3.IntSort()
        fy = z3.Function('B_%s_y' % self.fn_last, I, I); fm = z3.Function('B_%s_m' % self.fn_last, I, I); fd = z3.Function('B_%s_d' % self.fn_last, I, I)
        done = getattr(ctx, '_bound_asserted', set())
        for key, res in binds:
            kid = key.t.get_id()
            if kid in done: continue
            done.add(kid); ctx.keep.append(key.t)
            ctx.side += [fy(key.t) == res.f[0].t, fm(key.t) == res.f[1].t, fd(key.t) == res.f[2].t]
        ctx._bound_asserted = done
        y = IV(fy(a.t), 'i32', -2**31, 2**31 - 1); m = IV(fm(a.t), 'u32', 0, 2**32 - 1); d = IV(fd(a.t), 'u32', 0, 2**32 - 1)
        ctx.side += [y.t >= y.lo, y.t <= y.hi, m.t >= 0, m.t <= m.hi, d.t >= 0, d.t <= d.hi]
        return Agg([y, m, d]), T
