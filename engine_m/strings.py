"""Bounded string layer: a `&str` is (buffer of L symbolic bytes, start, len); the std string functions the crate's
RFC 3339 reader and TZ-footer reader use are modelled on that representation. Inputs are all strings of a given byte
length over ASCII plus two-byte UTF-8 sequences (U+0080..U+07FF); char-boundary panics of str slicing are modelled.
Strings containing 3- or 4-byte characters are outside the bound."""
import re
import z3
from .sym import (IV, BV, Agg, En, Ref, Opaque, StrLit, StrSel, Closure, UNIT, T, F, mk_int, mk_bool, bv_of, zand, zor, znot,
                  ty_range, Inconclusive, INT_TYPES, ite_iv, merge)
from . import oblig, models
from .models import in_ranges, call_closure, en2, cell

class StrV:
    is_strlike = True
    __slots__ = ('buf', 'start', 'len')
    def __init__(s, buf, start, ln): s.buf = buf; s.start = start; s.len = ln
    def __repr__(s): return 'StrV(L=%d,start=%s,len=%s)' % (len(s.buf), s.start, s.len)
    def merge_with(s, c, other):
        if isinstance(other, StrV) and other.buf is s.buf:
            return StrV(s.buf, ite_iv(c, s.start, other.start), ite_iv(c, s.len, other.len))
        return None
    def length(s): return s.len
class CharsV:
    __slots__ = ('s', 'pos')
    def __init__(s, st, pos): s.s = st; s.pos = pos
    def merge_with(s, c, other):
        if isinstance(other, CharsV) and other.s.buf is s.s.buf:
            st = s.s.merge_with(c, other.s)
            return CharsV(st, ite_iv(c, s.pos, other.pos))
        return None
class SliceIterV:
    """std::slice::Iter<u8> over a bounded byte string"""
    __slots__ = ('s', 'pos')
    def __init__(s, st, pos): s.s = st; s.pos = pos
    def merge_with(s, c, other):
        if isinstance(other, SliceIterV) and other.s.buf is s.s.buf:
            st = s.s.merge_with(c, other.s)
            return SliceIterV(st, ite_iv(c, s.pos, other.pos))
        return None
class ChunksV:
    __slots__ = ('s', 'n', 'pos')
    def __init__(s, st, n, pos): s.s = st; s.n = n; s.pos = pos
class ZipV:
    __slots__ = ('a', 'b')
    def __init__(s, a, b): s.a = a; s.b = b
class VecV:
    """Vec<T> (and a slice of all of it): `items` up to the largest length reached, `n` the length (symbolic after pushes under
    symbolic control flow: items at positions >= n are stale)"""
    __slots__ = ('items', 'n')
    def __init__(s, items, n=None):
        s.items = list(items); s.n = n if n is not None else mk_int(len(s.items), 'usize')
    def length(s): return s.n
    def clen(s): return s.n.const()
    def merge_with(s, c, other):
        if not isinstance(other, VecV): return None
        if c.c is True: return s
        if c.c is False: return other
        items = []
        for k in range(max(len(s.items), len(other.items))):
            if k < len(s.items) and k < len(other.items): items.append(merge(c, s.items[k], other.items[k]))
            else: items.append(s.items[k] if k < len(s.items) else other.items[k])
        a, b = s.n, other.n
        if a.const() is not None and a.const() == b.const(): n = a
        else: n = IV(z3.If(c.t, a.t, b.t), 'usize', min(a.lo, b.lo), max(a.hi, b.hi))
        return VecV(items, n)
    def pushed(s, x):
        k0 = s.clen()
        if k0 is not None: return VecV(s.items[:k0] + [x], mk_int(k0 + 1, 'usize'))
        items = list(s.items)
        for k in range(max(s.n.lo, 0), min(s.n.hi, len(items)) + 1):
            if k < len(items): items[k] = merge(bv_of(s.n.t == k), x, items[k])
            else: items.append(x)
        return VecV(items, IV(s.n.t + 1, 'usize', s.n.lo + 1, s.n.hi + 1))
    def as_array(s):
        k = s.clen()
        return Agg(s.items[:k], 'array') if k is not None else s
    def at(s, ctx, i, guard, site):
        """element i with the bounds check; returns (value or None, ok-guard)"""
        lo = max(s.n.lo, 0); hi = min(s.n.hi, len(s.items))
        okc = zand(i.t >= 0, i.t < s.n.t)
        safe = i.lo >= 0 and i.hi < lo
        if not safe: ctx.panics.append((zand(guard, znot(okc)), site, 'index out of bounds'))
        if hi == 0: return None, F
        ks = [k for k in range(hi) if i.lo <= k <= i.hi] or [0]
        val = s.items[ks[-1]]
        for k in reversed(ks[:-1]): val = merge(bv_of(i.t == k), s.items[k], val)
        return val, (T if safe else okc)
class VecIterV:
    """slice::Iter (or its Rev) over a Vec of symbolic length: k elements consumed so far"""
    __slots__ = ('v', 'k', 'rev')
    def __init__(s, v, k, rev): s.v = v; s.k = k; s.rev = rev
    def merge_with(s, c, other):
        if isinstance(other, VecIterV) and other.v is s.v and other.rev == s.rev: return VecIterV(s.v, merge(c, s.k, other.k), s.rev)
        return None
class StepV:
    """Range<int>::step_by(constant)"""
    __slots__ = ('start', 'end', 'step', 'ty')
    def __init__(s, start, end, step, ty): s.start = start; s.end = end; s.step = step; s.ty = ty
class TakeWhileV:
    __slots__ = ('ch', 'clo')
    def __init__(s, ch, clo): s.ch = ch; s.clo = clo

def add_iv(a, b, ty='usize'):
    if a.const() is not None and b.const() is not None: return mk_int(a.const() + b.const(), ty)
    return IV(a.t + b.t, ty, a.lo + b.lo, a.hi + b.hi)
def sub_iv(a, b, ty='usize'):
    if a.const() is not None and b.const() is not None: return mk_int(a.const() - b.const(), ty)
    return IV(a.t - b.t, ty, a.lo - b.hi, a.hi - b.lo)

def ieq(a, b):
    """a == b as a z3 Boolean, decided from the intervals where possible (b: IV or int)"""
    if isinstance(b, int): b = mk_int(b, 'u8')
    if a.hi < b.lo or a.lo > b.hi: return F
    if a.const() is not None and a.const() == b.const(): return T
    return a.t == b.t
def ige(a, k):
    if a.lo >= k: return T
    if a.hi < k: return F
    return a.t >= k

def as_str(ex, v):
    v = ex.deref(v)
    if isinstance(v, StrLit):
        buf = [mk_int(b, 'u8') for b in v.b]
        return StrV(buf, mk_int(0, 'usize'), mk_int(len(buf), 'usize'))
    if isinstance(v, StrV): return v
    raise Inconclusive('not a modelled string: %r' % (v,))

def byte_at(st, idx):
    """byte of st at relative index idx (IV); meaningful only where idx < len"""
    pos = add_iv(st.start, idx)
    n = len(st.buf)
    if pos.const() is not None:
        k = pos.const()
        return st.buf[k] if 0 <= k < n else mk_int(0, 'u8')
    lo = max(pos.lo, 0); hi = min(pos.hi, n - 1)
    if hi < lo: return mk_int(0, 'u8')
    t = st.buf[hi].t
    for k in range(hi - 1, lo - 1, -1): t = z3.If(pos.t == k, st.buf[k].t, t)
    return IV(t, 'u8', min(b.lo for b in st.buf[lo:hi + 1]), max(b.hi for b in st.buf[lo:hi + 1]))

def is_cont(b):
    if b.hi < 128: return F
    return z3.And(b.t >= 128, b.t <= 191)

def boundary(st, idx):
    """idx (relative) is a char boundary of st: 0, len, or not a continuation byte"""
    b = byte_at(st, idx)
    return zor(idx.t == 0, idx.t == st.len.t, znot(is_cont(b)))

def char_at(st, idx):
    """scalar value of the char starting at relative byte index idx (ASCII or two-byte sequence)"""
    b0 = byte_at(st, idx)
    if b0.hi < 128: return IV(b0.t, 'char', b0.lo, b0.hi)
    b1 = byte_at(st, add_iv(idx, mk_int(1, 'usize')))
    return IV(z3.If(b0.t < 128, b0.t, (b0.t - 192) * 64 + (b1.t - 128)), 'char', 0, 0x7FF)

def parse_int(ex, st, ty):
    """<int>::from_str: optional '+' (and '-' for signed), at least one digit, overflow -> Err.
    Conditions the byte intervals decide are decided here; the value carries the interval its digits allow (0 where the parse fails)."""
    signed = INT_TYPES[ty][1] == 1; tlo, thi = ty_range(ty)
    lo = max(st.len.lo, 0); hi = min(st.len.hi, len(st.buf))
    DIG = [(48, 57)]
    cases = []          # (k, ok-term, value-term, vlo, vhi)
    for k in range(hi, lo - 1, -1):
        if k == 0: cases.append((0, F, z3.IntVal(0), 0, 0)); continue
        bs = [byte_at(st, mk_int(i, 'usize')) for i in range(k)]
        isd = []
        for b in bs:
            r = in_ranges(b, DIG)
            isd.append(T if r.c is True else F if r.c is False else r.t)
        def num(js):
            t = z3.IntVal(0); l = h = 0
            for j in js:
                t = t * 10 + (bs[j].t - 48)
                l = l * 10 + min(max(bs[j].lo - 48, 0), 9); h = h * 10 + min(max(bs[j].hi - 48, 0), 9)
            return t, l, h
        plain_ok = zand(*isd); pv, pl, ph = num(range(k))
        alts = []       # (condition, value, lo, hi)
        if not z3.is_false(plain_ok): alts.append((plain_ok, pv, pl, ph))
        if k > 1:
            rest_ok = zand(*isd[1:]); rv, rl, rh = num(range(1, k))
            plus = ieq(bs[0], 43); minus = ieq(bs[0], 45) if signed else F
            cp = zand(plus, rest_ok); cm = zand(minus, rest_ok)
            if not z3.is_false(cp): alts.append((cp, rv, rl, rh))
            if not z3.is_false(cm): alts.append((cm, -rv, -rh, -rl))
        oks = []; valk = z3.IntVal(0); vlo = vhi = 0
        for cnd, v, l, h in reversed(alts):
            inr = T if (l >= tlo and h <= thi) else F if (h < tlo or l > thi) else z3.And(v >= tlo, v <= thi)
            c2 = zand(cnd, inr)
            if z3.is_false(c2): continue
            oks.append(c2); valk = v if z3.is_true(c2) else z3.If(c2, v, valk)
            vlo = min(vlo, max(l, tlo)); vhi = max(vhi, min(h, thi))
            if z3.is_true(c2): vlo, vhi = max(l, tlo), min(h, thi)
        cases.append((k, zor(*oks), valk, vlo, vhi))
    if not cases: cases = [(0, F, z3.IntVal(0), 0, 0)]
    res_ok, res_val = cases[0][1], cases[0][2]
    for k, okk, valk, _, _ in cases[1:]:
        c = st.len.t == k
        res_ok = z3.If(c, okk, res_ok); res_val = z3.If(c, valk, res_val)
    vlo = min(c[3] for c in cases); vhi = max(c[4] for c in cases)
    if len(cases) == 1: ok = bv_of(res_ok)
    else: ok = bv_of(z3.simplify(res_ok))
    notok = mk_bool(not ok.c) if ok.c is not None else BV(z3.Not(ok.t))
    return en2(notok, [IV(res_val, ty, min(vlo, 0), max(vhi, 0))], [Opaque('ParseIntError')], 'Result')

def unicode_case(ex, st, upper):
    """str::to_uppercase / to_lowercase on a bounded string of ASCII and two-byte characters: the mapping of every two-byte character
    is std's own (table printed by the native build of this run); the result may be shorter or longer than the input"""
    tbl = ex.scratch.case_table()
    n = max(0, min(st.len.hi, len(st.buf)))
    if n > 24: raise Inconclusive('to_uppercase/to_lowercase on more than 24 bytes')
    bs = [byte_at(st, mk_int(i, 'usize')) for i in range(n)]
    if not upper and any(b.hi >= 0xCE and b.lo <= 0xCF for b in bs): raise Inconclusive('to_lowercase near Greek sigma (context-sensitive final sigma) is not modelled')
    # per position: is a character start inside the string, output width, output bytes
    width = []; outb = []
    for i in range(n):
        b = bs[i]; inside = ige(st.len, i + 1)
        asc = b.hi < 128; maybe_lead = b.hi >= 0xC2 and b.lo <= 0xDF and i + 1 < n
        if upper: a0 = z3.If(z3.And(b.t >= 97, b.t <= 122), b.t - 32, b.t)
        else: a0 = z3.If(z3.And(b.t >= 65, b.t <= 90), b.t + 32, b.t)
        w = z3.If(b.t < 128, 1, z3.If(b.t >= 0xC2, 2, 0))       # continuation bytes emit nothing themselves
        ob = [z3.If(b.t < 128, a0, b.t)] + ([bs[i + 1].t] if i + 1 < n else [z3.IntVal(0)]) + [z3.IntVal(0)] * 4
        if maybe_lead:
            b1 = bs[i + 1]
            for cp, (u, l) in tbl.items():
                x0 = 0xC0 | (cp >> 6); x1 = 0x80 | (cp & 63)
                if not (b.lo <= x0 <= b.hi and b1.lo <= x1 <= b1.hi): continue
                r = u if upper else l
                if r == bytes([x0, x1]): continue
                c = z3.And(b.t == x0, b1.t == x1)
                w = z3.If(c, len(r), w)
                for k in range(6): ob[k] = z3.If(c, r[k] if k < len(r) else 0, ob[k])
        width.append(z3.If(inside, w, 0) if not z3.is_true(inside) else w); outb.append(ob)
    offs = [z3.IntVal(0)]
    for i in range(n): offs.append(offs[-1] + width[i])
    M = min(3 * n, 72)
    fresh = []
    for j in range(M):
        t = z3.IntVal(0)
        for i in range(n - 1, -1, -1):
            for k in range(5, -1, -1):
                t = z3.If(z3.And(offs[i] + k == j, k < width[i]), outb[i][k], t)
        # name the byte: keeps later terms small
        ex.ctx.n += 1
        x = z3.Int('upc_%d_%d' % (ex.ctx.n, j)); ex.ctx.side.append(x == t); ex.ctx.side.append(z3.And(x >= 0, x <= 255))
        fresh.append(IV(x, 'u8', 0, 255))
    ex.ctx.n += 1
    ln = z3.Int('upc_len_%d' % ex.ctx.n); ex.ctx.side.append(ln == offs[n])
    ex.ctx.models_used.add('str::%s (ASCII + two-byte characters, std table of this build, at most 24 bytes)' % ('to_uppercase' if upper else 'to_lowercase'))
    return StrV(fresh, mk_int(0, 'usize'), IV(ln, 'usize', 0, M))

def call_pred(ex, clo, ch, guard, by_ref):
    arg = cell(ex, ch) if by_ref else ch
    v, rg = call_closure(ex, clo, [arg], guard)
    return v

def chars_remaining(ch):
    rem = sub_iv(ch.s.len, ch.pos)
    maxlen = max(0, min(rem.hi, len(ch.s.buf)))
    return rem, maxlen

def string_model(ex, c, args, guard, site):
    ctx = ex.ctx
    cs = ex.strip_generics(c)
    if cs in ('core::str::<impl str>::len', 'String::len', 'core::str::<impl str>::as_bytes', '<String as Deref>::deref', 'String::as_str', 'core::str::<impl str>::as_str',
              'String::as_bytes', '<str as AsRef<[u8]>>::as_ref', 'core::slice::<impl [u8]>::len'):
        v = ex.deref(args[0])
        if isinstance(v, (StrV, StrLit)):
            st = as_str(ex, v)
            ctx.models_used.add(cs)
            return (st.len if cs.endswith('::len') else st), T
        return None
    m = re.match(r'^<(?:str|String) as Index<(?:std::ops::)?(Range|RangeFrom|RangeTo)<usize>>>::index$', cs) or \
        re.match(r'^core::str::traits::<impl Index<(?:std::ops::)?(Range|RangeFrom|RangeTo)<usize>> for str>::index$', cs)
    if m:
        v = ex.deref(args[0])
        if not isinstance(v, (StrV, StrLit)): return None
        st = as_str(ex, v); r = ex.deref(args[1]); kind = m.group(1)
        a = r.f[0] if kind != 'RangeTo' else mk_int(0, 'usize')
        b = r.f[1] if kind == 'Range' else (r.f[0] if kind == 'RangeTo' else st.len)
        okc = zand(a.t <= b.t, b.t <= st.len.t, boundary(st, a), boundary(st, b))
        ctx.models_used.add('str Index<%s<usize>> (bounds and char-boundary panics)' % kind)
        if not z3.is_true(okc): ctx.panics.append((zand(guard, znot(okc)), site, 'str slice index out of range or not a char boundary'))
        return StrV(st.buf, add_iv(st.start, a), IV(b.t - a.t, 'usize', max(0, b.lo - a.hi), max(0, b.hi - a.lo))), okc
    # byte-slice indexing by a range: bounds panic only (no char boundaries)
    m = re.match(r'^<\[u8\] as Index<(?:std::ops::)?(Range|RangeFrom|RangeTo)<usize>>>::index$', cs) or \
        re.match(r'^core::slice::index::<impl Index<(?:std::ops::)?(Range|RangeFrom|RangeTo)<usize>> for \[u8\]>::index$', cs)
    if m:
        v = ex.deref(args[0])
        if not isinstance(v, (StrV, StrLit)): return None
        st = as_str(ex, v); r = ex.deref(args[1]); kind = m.group(1)
        a = r.f[0] if kind != 'RangeTo' else mk_int(0, 'usize')
        b = r.f[1] if kind == 'Range' else (r.f[0] if kind == 'RangeTo' else st.len)
        okc = zand(a.t <= b.t, b.t <= st.len.t)
        ctx.models_used.add('[u8] Index<%s<usize>> (bounds panic)' % kind)
        if not z3.is_true(okc): ctx.panics.append((zand(guard, znot(okc)), site, 'byte slice index out of range'))
        return StrV(st.buf, add_iv(st.start, a), IV(b.t - a.t, 'usize', max(0, b.lo - a.hi), max(0, b.hi - a.lo))), okc
    m = re.match(r'^core::str::<impl str>::parse::<(\w+)>$', c)
    if m and m.group(1) not in INT_TYPES and getattr(ex, 'generic_stack', None):
        # generic callee body (MIR is polymorphic): the type parameter comes from the innermost call that named concrete generics
        for gs in reversed(ex.generic_stack):
            if gs and gs[0] in INT_TYPES:
                m = re.match(r'^(\w+)$', gs[0]); break
    if m and m.group(1) in INT_TYPES:
        v = ex.deref(args[0])
        if not isinstance(v, (StrV, StrLit)): return None
        ctx.models_used.add('str::parse::<%s>' % m.group(1))
        return parse_int(ex, as_str(ex, v), m.group(1)), T
    m = re.match(r'^(?:core::str::<impl str>|std::str::<impl str>|alloc::str::<impl str>|str::<impl str>)::(to_ascii_uppercase|to_ascii_lowercase)$', cs)
    if m:
        v = ex.deref(args[0])
        if not isinstance(v, (StrV, StrLit)): return None
        st = as_str(ex, v)
        lo_, hi_, d_ = (97, 122, -32) if m.group(1) == 'to_ascii_uppercase' else (65, 90, 32)
        buf = []
        for b in st.buf:
            if b.hi < lo_ or b.lo > hi_: buf.append(b)
            elif lo_ <= b.lo and b.hi <= hi_: buf.append(IV(b.t + d_, 'u8', b.lo + d_, b.hi + d_))
            else: buf.append(IV(z3.If(z3.And(b.t >= lo_, b.t <= hi_), b.t + d_, b.t), 'u8', min(b.lo, max(b.lo, lo_) + d_), max(b.hi, min(b.hi, hi_) + d_)))
        ctx.models_used.add('str::%s (same length, ASCII letters only)' % m.group(1))
        return StrV(buf, st.start, st.len), T
    m = re.match(r'^(?:core::str::<impl str>|std::str::<impl str>|alloc::str::<impl str>|str::<impl str>)::(to_uppercase|to_lowercase)$', cs)
    if m:
        v = ex.deref(args[0])
        if not isinstance(v, (StrV, StrLit)): return None
        return unicode_case(ex, as_str(ex, v), m.group(1) == 'to_uppercase'), T
    if cs == 'core::str::<impl str>::chars':
        v = ex.deref(args[0])
        if not isinstance(v, (StrV, StrLit)): return None
        ctx.models_used.add(cs)
        return CharsV(as_str(ex, v), mk_int(0, 'usize')), T
    if cs == "<Chars<'_> as Iterator>::nth" or cs == "<Chars<'_> as Iterator>::next":
        r = args[0]; ch = ex.deref(r)
        if not isinstance(ch, CharsV): return None
        n = args[1] if cs.endswith('nth') else mk_int(0, 'usize')
        k = n.const()
        if k is None: raise Inconclusive('Chars::nth with a symbolic index')
        rem, maxlen = chars_remaining(ch)
        # byte offset (relative to pos) of the k-th char start: the j with start_j and #starts before j == k
        found = F; joff = z3.IntVal(0); cnt = z3.IntVal(0)
        cands = []
        for j in range(maxlen):
            bj = byte_at(ch.s, add_iv(ch.pos, mk_int(j, 'usize')))
            st_j = znot(is_cont(bj))
            hit = zand(j < rem.t, st_j, cnt == k)
            cands.append((hit, j))
            cnt = cnt + z3.If(st_j, 1, 0) if not z3.is_true(st_j) else cnt + 1
            if z3.is_true(st_j) and z3.is_int_value(z3.simplify(cnt)) and z3.simplify(cnt).as_long() > k: break
        for hit, j in reversed(cands):
            joff = z3.If(hit, j, joff); found = zor(hit, found)
        jiv = IV(joff, 'usize', 0, max(0, maxlen - 1))
        cv = char_at(ch.s, add_iv(ch.pos, jiv))
        clen = z3.If(byte_at(ch.s, add_iv(ch.pos, jiv)).t < 128, 1, 2)
        newpos = IV(z3.If(found, ch.pos.t + joff + clen, ch.s.len.t), 'usize', 0, len(ch.s.buf))
        ex.write_ref(r, [], CharsV(ch.s, newpos))
        ctx.models_used.add(cs)
        fb = bv_of(found)
        return en2(fb, [], [cv], 'Option'), T
    if cs.startswith("<Chars<'_> as Iterator>::take_while"):
        return TakeWhileV(ex.deref(args[0]), args[1]), T
    if cs.startswith("<TakeWhile<Chars<'_>,") and cs.endswith("as Iterator>::collect"):
        tw = ex.deref(args[0]); ch = tw.ch; st = ch.s
        rem, maxlen = chars_remaining(ch)
        plen = z3.IntVal(maxlen)
        for j in range(maxlen - 1, -1, -1):
            p = add_iv(ch.pos, mk_int(j, 'usize'))
            st_j = znot(is_cont(byte_at(st, p)))
            cnd = call_pred(ex, tw.clo, char_at(st, p), guard, True)
            stop = zor(j >= rem.t, zand(st_j, znot(cnd.t)))
            plen = z3.If(stop, j, plen)
        plen = z3.If(rem.t <= 0, 0, plen) if maxlen > 0 else z3.IntVal(0)
        ctx.models_used.add('Chars::take_while(..).collect::<String>()')
        return StrV(st.buf, add_iv(st.start, ch.pos), IV(plen, 'usize', 0, maxlen)), T
    if cs.startswith("<Chars<'_> as Iterator>::all") or cs.startswith("<Chars<'_> as Iterator>::any"):
        r = args[0]; ch = ex.deref(r); st = ch.s; clo = args[1]
        is_all = '::all' in cs
        rem, maxlen = chars_remaining(ch)
        acc = []
        for j in range(maxlen):
            p = add_iv(ch.pos, mk_int(j, 'usize'))
            st_j = znot(is_cont(byte_at(st, p)))
            cnd = call_pred(ex, clo, char_at(st, p), guard, False)
            inside = zand(j < rem.t, st_j)
            acc.append(z3.Implies(inside, cnd.t) if is_all else zand(inside, cnd.t))
        ctx.models_used.add('Chars::all/any')
        ex.write_ref(r, [], CharsV(st, st.len))
        return bv_of(zand(*acc) if is_all else zor(*acc)), T
    if cs.startswith("<Chars<'_> as Iterator>::position"):
        r = args[0]; ch = ex.deref(r); st = ch.s; clo = args[1]
        rem, maxlen = chars_remaining(ch)
        found = F; pos = z3.IntVal(0); cnt = z3.IntVal(0); items = []
        for j in range(maxlen):
            p = add_iv(ch.pos, mk_int(j, 'usize'))
            st_j = znot(is_cont(byte_at(st, p)))
            cnd = call_pred(ex, clo, char_at(st, p), guard, False)
            items.append((zand(j < rem.t, st_j, cnd.t), cnt))
            cnt = cnt + (1 if z3.is_true(st_j) else z3.If(st_j, 1, 0))
        for hit, cn in reversed(items):
            pos = z3.If(hit, cn, pos); found = zor(hit, found)
        ctx.models_used.add('Chars::position')
        return en2(bv_of(found), [], [IV(pos, 'usize', 0, max(0, maxlen - 1))], 'Option'), T
    if re.match(r'^core::str::<impl str>::(starts_with|ends_with)$', cs):
        v = ex.deref(args[0])
        if not isinstance(v, (StrV, StrLit)): return None
        st = as_str(ex, v); pat = ex.deref(args[1])
        if isinstance(pat, IV):
            if pat.hi >= 128: raise Inconclusive('starts_with(non-ASCII char)')
            if cs.endswith('starts_with'):
                b = byte_at(st, mk_int(0, 'usize'))
                return bv_of(zand(ige(st.len, 1), ieq(b, pat))), T
            b = byte_at(st, sub_iv(st.len, mk_int(1, 'usize')))
            return bv_of(zand(ige(st.len, 1), ieq(b, pat))), T
        if isinstance(pat, StrLit):
            k = len(pat.b)
            if cs.endswith('starts_with'):
                return bv_of(zand(ige(st.len, k), *[ieq(byte_at(st, mk_int(i, 'usize')), pat.b[i]) for i in range(k)])), T
            return bv_of(zand(ige(st.len, k), *[ieq(byte_at(st, IV(st.len.t - k + i, 'usize', st.len.lo - k + i, st.len.hi - k + i)), pat.b[i]) for i in range(k)])), T
        return None
    r_ = bytes_model(ex, c, cs, args, guard, site)
    if r_ is not None: return r_
    if cs in ('from_utf8', 'std::str::from_utf8', 'core::str::from_utf8', 'core::str::converts::from_utf8'):
        v = ex.deref(args[0])
        if not isinstance(v, (StrV, StrLit)): return None
        st = as_str(ex, v)
        mx = max(0, min(st.len.hi, len(st.buf)))
        lo_pos = st.start.lo; hi_pos = min(st.start.hi + mx, len(st.buf))
        if any(b.hi >= 128 for b in st.buf[max(lo_pos, 0):hi_pos]):
            # class-fixed bytes at concrete positions: ASCII, 2-byte lead [C2,DF] + continuation [80,BF]; anything else is outside the model
            if st.start.const() is None or st.len.const() is None: raise Inconclusive('from_utf8 on bytes that may be non-ASCII at symbolic positions')
            bs = st.buf[st.start.const():st.start.const() + st.len.const()]
            i = 0; valid = True
            while i < len(bs):
                b = bs[i]
                if b.hi < 128: i += 1; continue
                if 0xC2 <= b.lo and b.hi <= 0xDF:
                    if i + 1 < len(bs) and 0x80 <= bs[i + 1].lo and bs[i + 1].hi <= 0xBF: i += 2; continue
                    if i + 1 >= len(bs) or bs[i + 1].hi < 0x80 or bs[i + 1].lo > 0xBF: valid = False; break
                    raise Inconclusive('from_utf8: byte after a 2-byte lead is not class-fixed')
                if (0x80 <= b.lo and b.hi <= 0xBF) or (0xC0 <= b.lo and b.hi <= 0xC1) or b.lo >= 0xF5: valid = False; break
                raise Inconclusive('from_utf8 on bytes outside the modelled classes (ASCII, 2-byte sequences, lone continuation bytes)')
            ctx.models_used.add('str::from_utf8 on class-fixed bytes (ASCII / 2-byte sequences valid, lone continuation or lead bytes invalid)')
            return En(mk_int(0 if valid else 1, 'isize'), {0: [st], 1: [Opaque('Utf8Error')]}, 'Result'), T
        ctx.models_used.add('str::from_utf8 on ASCII bytes (always Ok)')
        return En(mk_int(0, 'isize'), {0: [st], 1: [Opaque('Utf8Error')]}, 'Result'), T
    if cs == 'core::str::<impl str>::trim_matches' or cs in ('core::str::<impl str>::trim', 'core::str::<impl str>::trim_start_matches', 'core::str::<impl str>::trim_end_matches'):
        v = ex.deref(args[0])
        if not isinstance(v, (StrV, StrLit)): return None
        st = as_str(ex, v)
        mx = max(0, min(st.len.hi, len(st.buf)))
        def pred(i_iv):
            b = byte_at(st, i_iv)
            ch = IV(b.t, 'char', max(b.lo, 0), min(b.hi, 127))
            if cs.endswith('::trim'): return in_ranges(ch, [(9, 13), (32, 32)])
            pat = ex.deref(args[1])
            if isinstance(pat, IV): return ex.cmp_iv('Eq', ch, IV(pat.t, 'char', pat.lo, pat.hi))
            return call_pred(ex, pat, ch, guard, False)
        def count(idx_of, limit_ok):
            """number of consecutive matching positions idx_of(0), idx_of(1), ..: a concrete prefix, then a symbolic remainder"""
            nc = 0; symb = False; run = T; t = z3.IntVal(0); ns = 0
            for j in range(mx):
                inl = limit_ok(j)
                if inl.c is False: break
                p = pred(idx_of(j))
                cond = ex.binop('BitAnd', inl, p)
                if not symb and cond.c is True: nc += 1; continue
                if not symb and cond.c is False: break
                symb = True
                run = zand(run, cond.t); t = t + z3.If(run, 1, 0); ns += 1
            if not symb: return mk_int(nc, 'usize')
            return IV(nc + t, 'usize', nc, nc + ns)
        # lead = number of leading matching bytes; trail = number of trailing matching bytes of the rest
        lead = count(lambda j: mk_int(j, 'usize'), lambda j: ex.cmp_iv('Lt', mk_int(j, 'usize'), st.len))
        if cs.endswith('trim_end_matches'): lead = mk_int(0, 'usize')
        rest = sub_iv(st.len, lead)
        trail = count(lambda j: sub_iv(st.len, mk_int(1 + j, 'usize')), lambda j: ex.cmp_iv('Lt', mk_int(j, 'usize'), rest))
        if cs.endswith('trim_start_matches'): trail = mk_int(0, 'usize')
        ctx.models_used.add('str::trim_matches/trim (ASCII)')
        return StrV(st.buf, add_iv(st.start, lead), sub_iv(rest, trail)), T
    if cs == 'core::str::<impl str>::contains':
        v = ex.deref(args[0]); pat = ex.deref(args[1])
        if not isinstance(v, (StrV, StrLit)) or not isinstance(pat, IV): return None
        st = as_str(ex, v)
        mx = max(0, min(st.len.hi, len(st.buf)))
        return bv_of(zor(*[zand(ige(st.len, j + 1), ieq(byte_at(st, mk_int(j, 'usize')), pat)) for j in range(mx)])), T
    m = re.match(r'^core::num::<impl u8>::(is_ascii_alphabetic|is_ascii_digit|is_ascii_whitespace|is_ascii_alphanumeric|is_ascii_uppercase|is_ascii_lowercase|is_ascii)$', cs)
    if m:
        a = ex.deref(args[0]); fn = m.group(1)
        rng = {'is_ascii_digit': [(48, 57)], 'is_ascii': [(0, 127)], 'is_ascii_alphabetic': [(65, 90), (97, 122)], 'is_ascii_uppercase': [(65, 90)], 'is_ascii_lowercase': [(97, 122)],
               'is_ascii_alphanumeric': [(48, 57), (65, 90), (97, 122)], 'is_ascii_whitespace': [(9, 10), (12, 13), (32, 32)]}[fn]
        return in_ranges(a, rng), T
    if cs in ('core::str::<impl str>::is_ascii', 'core::slice::ascii::<impl [u8]>::is_ascii', 'core::slice::<impl [u8]>::is_ascii'):
        v = ex.deref(args[0])
        if not isinstance(v, (StrV, StrLit)): return None
        st = as_str(ex, v)
        mx = max(0, min(st.len.hi, len(st.buf)))
        conds = []
        for j in range(mx):
            conds.append(z3.Or(j >= st.len.t, byte_at(st, mk_int(j, 'usize')).t < 128))
        ctx.models_used.add(cs)
        return bv_of(zand(*conds)), T
    if cs == 'core::str::<impl str>::is_empty' or cs == 'String::is_empty':
        v = ex.deref(args[0])
        if not isinstance(v, (StrV, StrLit)): return None
        return ex.cmp_iv('Eq', as_str(ex, v).len, mk_int(0, 'usize')), T
    if cs == 'core::str::<impl str>::is_char_boundary':
        v = ex.deref(args[0])
        if not isinstance(v, (StrV, StrLit)): return None
        st = as_str(ex, v); i = args[1]
        return bv_of(zand(i.t <= st.len.t, boundary(st, i))), T
    return None

def opt(bv, payload):
    return en2(bv, [], payload, 'Option')

def bytes_model(ex, c, cs, args, guard, site):
    ctx = ex.ctx
    def strv(x):
        v = ex.deref(x)
        return as_str(ex, v) if isinstance(v, (StrV, StrLit)) else None
    if cs == 'core::slice::<impl [u8]>::split_at':
        st = strv(args[0]); mid = args[1]
        if st is None: return None
        okc = mid.t <= st.len.t
        if not z3.is_true(z3.simplify(okc)): ctx.panics.append((zand(guard, znot(okc)), site, 'split_at: mid > len'))
        a = StrV(st.buf, st.start, IV(mid.t, 'usize', max(mid.lo, 0), min(mid.hi, st.len.hi)))
        b = StrV(st.buf, add_iv(st.start, mid), IV(st.len.t - mid.t, 'usize', max(0, st.len.lo - mid.hi), max(0, st.len.hi - mid.lo)))
        return Agg([a, b]), okc
    if cs in ('core::slice::<impl [u8]>::is_empty',):
        st = strv(args[0])
        if st is None: return None
        return ex.cmp_iv('Eq', st.len, mk_int(0, 'usize')), T
    if cs in ('core::slice::<impl [u8]>::first', 'core::slice::<impl [u8]>::last'):
        st = strv(args[0])
        if st is None: return None
        idx = mk_int(0, 'usize') if cs.endswith('first') else sub_iv(st.len, mk_int(1, 'usize'))
        return opt(ex.cmp_iv('Gt', st.len, mk_int(0, 'usize')), [cell(ex, byte_at(st, idx))]), T
    if cs == 'core::slice::<impl [u8]>::iter' or re.match(r'^<&\[u8\] as IntoIterator>::into_iter$', cs):
        st = strv(args[0])
        if st is None: return None
        return SliceIterV(st, mk_int(0, 'usize')), T
    if re.match(r"^<std::slice::Iter<'_, u8> as IntoIterator>::into_iter$", cs):
        v = ex.deref(args[0])
        if isinstance(v, SliceIterV): return v, T
        return None
    if re.match(r"^<std::slice::Iter<'_, u8> as Iterator>::next$", cs):
        r = args[0]; it = ex.deref(r)
        if not isinstance(it, SliceIterV): return None
        has = ex.cmp_iv('Lt', it.pos, it.s.len)
        b = byte_at(it.s, it.pos)
        newpos = IV(z3.If(has.t, it.pos.t + 1, it.pos.t), 'usize', it.pos.lo, min(it.pos.hi + 1, len(it.s.buf))) if has.c is None else (add_iv(it.pos, mk_int(1, 'usize')) if has.c else it.pos)
        ex.write_ref(r, [], SliceIterV(it.s, newpos))
        return opt(has, [cell(ex, b)]), T
    if re.match(r"^<std::slice::Iter<'_, u8> as Iterator>::(any|all)$", cs):
        r = args[0]; it = ex.deref(r)
        if not isinstance(it, SliceIterV): return None
        is_all = cs.endswith('all')
        mx = max(0, min(it.s.len.hi, len(it.s.buf)))
        acc = []
        for j in range(mx):
            idx = add_iv(it.pos, mk_int(j, 'usize'))
            v, rg2 = call_closure(ex, args[1], [cell(ex, byte_at(it.s, idx))], guard)
            inside = idx.t < it.s.len.t
            acc.append(z3.Implies(inside, v.t) if is_all else zand(inside, v.t))
        ex.write_ref(r, [], SliceIterV(it.s, it.s.len))
        return bv_of(zand(*acc) if is_all else zor(*acc)), T
    m = re.match(r'^<&?\[u8\] as PartialEq<&?\[u8(?:; \d+)?\]>>::(eq|ne)$', cs) or re.match(r'^<&?\[u8(?:; \d+)?\] as PartialEq<&?\[u8(?:; \d+)?\]>>::(eq|ne)$', cs) or re.match(r'^<&?\[u8\] as PartialEq>::(eq|ne)$', cs)
    if m:
        def view(x):
            v = ex.deref(x)
            if isinstance(v, (StrV, StrLit)): st = as_str(ex, v); return st.len, lambda i: byte_at(st, mk_int(i, 'usize')), min(st.len.hi, len(st.buf))
            if isinstance(v, Agg): return mk_int(len(v.f), 'usize'), lambda i: v.f[i], len(v.f)
            return None
        a, b = view(args[0]), view(args[1])
        if a is None or b is None: return None
        n = min(a[2], b[2])
        e = zand(a[0].t == b[0].t, *[z3.Implies(i < a[0].t, a[1](i).t == b[1](i).t) for i in range(n)])
        return bv_of(e if m.group(1) == 'eq' else znot(e)), T
    m = re.match(r'^<&\[u8\] as TryInto<\[u8; (\d+)\]>>::try_into$', cs)
    if m:
        st = strv(args[0]); n = int(m.group(1))
        if st is None: return None
        ok = ex.cmp_iv('Eq', st.len, mk_int(n, 'usize'))
        notok = mk_bool(not ok.c) if ok.c is not None else BV(z3.Not(ok.t))
        return en2(notok, [Agg([byte_at(st, mk_int(i, 'usize')) for i in range(n)], 'array')], [Opaque('TryFromSliceError')], 'Result'), T
    if cs == 'core::slice::<impl [u8]>::chunks_exact':
        st = strv(args[0]); n = args[1].const()
        if st is None or n is None: raise Inconclusive('chunks_exact with a symbolic chunk size')
        if n == 0: ctx.panics.append((guard, site, 'chunk size must be non-zero')); return None, F
        return ChunksV(st, n, mk_int(0, 'usize')), T
    if re.match(r"^<ChunksExact<'_, u8> as IntoIterator>::into_iter$", cs): return ex.deref(args[0]), T
    if re.match(r"^<ChunksExact<'_, u8> as Iterator>::zip$", cs):
        b = ex.deref(args[1])
        if isinstance(b, (StrV, StrLit)): b = SliceIterV(as_str(ex, b), mk_int(0, 'usize'))
        return ZipV(ex.deref(args[0]), b), T
    if re.match(r"^<Zip<ChunksExact<'_, u8>, std::slice::Iter<'_, u8>> as IntoIterator>::into_iter$", cs): return ex.deref(args[0]), T
    def chunk_next(ch):
        has = bv_of(z3.simplify(ch.pos.t + ch.n <= ch.s.len.t))
        if has.c is None and ch.pos.lo + ch.n > ch.s.len.hi: has = mk_bool(False)
        chunk = StrV(ch.s.buf, add_iv(ch.s.start, ch.pos), mk_int(ch.n, 'usize'))
        if has.c is None:
            npos = IV(z3.If(has.t, ch.pos.t + ch.n, ch.pos.t), 'usize', ch.pos.lo, min(ch.pos.hi + ch.n, len(ch.s.buf)))
        else: npos = add_iv(ch.pos, mk_int(ch.n, 'usize')) if has.c else ch.pos
        return has, chunk, ChunksV(ch.s, ch.n, npos)
    if re.match(r"^<ChunksExact<'_, u8> as Iterator>::next$", cs):
        r = args[0]; ch = ex.deref(r)
        has, chunk, nxt = chunk_next(ch)
        ex.write_ref(r, [], nxt)
        return opt(has, [chunk]), T
    if re.match(r"^<Zip<ChunksExact<'_, u8>, std::slice::Iter<'_, u8>> as Iterator>::next$", cs):
        r = args[0]; z = ex.deref(r)
        it = z.b
        # (Zip of two TrustedRandomAccess iterators: neither side is advanced once the shorter one is exhausted)
        has1 = bv_of(z3.simplify(z.a.pos.t + z.a.n <= z.a.s.len.t))
        if has1.c is None and z.a.pos.lo + z.a.n > z.a.s.len.hi: has1 = mk_bool(False)
        has2 = ex.cmp_iv('Lt', it.pos, it.s.len)
        both = ex.binop('BitAnd', has1, has2)
        chunk = StrV(z.a.s.buf, add_iv(z.a.s.start, z.a.pos), mk_int(z.a.n, 'usize'))
        if both.c is False:
            return opt(mk_bool(False), [Agg([chunk, cell(ex, mk_int(0, 'u8'))])]), T
        b = byte_at(it.s, it.pos)
        if both.c is True:
            npa = add_iv(z.a.pos, mk_int(z.a.n, 'usize')); npb = add_iv(it.pos, mk_int(1, 'usize'))
        else:
            npa = IV(z3.If(both.t, z.a.pos.t + z.a.n, z.a.pos.t), 'usize', z.a.pos.lo, min(z.a.pos.hi + z.a.n, len(z.a.s.buf)))
            npb = IV(z3.If(both.t, it.pos.t + 1, it.pos.t), 'usize', it.pos.lo, min(it.pos.hi + 1, len(it.s.buf)))
        ex.write_ref(r, [], ZipV(ChunksV(z.a.s, z.a.n, npa), SliceIterV(it.s, npb)))
        return opt(both, [Agg([chunk, cell(ex, b)])]), T
    # ---- slices of structured values (views of a Vec with a concrete number of elements)
    m = re.match(r'^core::slice::<impl \[.*\]>::(last|first|is_empty|len)$', cs)
    if m:
        v = ex.deref(args[0]); fn = m.group(1)
        if isinstance(v, VecV) and v.clen() is None:
            if fn == 'len': return v.n, T
            if fn == 'is_empty': return bv_of(v.n.t == 0), T
            hi = min(v.n.hi, len(v.items))
            if hi == 0: return En(mk_int(0, 'isize'), {0: []}, 'Option'), T
            if fn == 'first': val = v.items[0]
            else:
                val = v.items[hi - 1]
                for k in range(hi - 2, -1, -1): val = merge(bv_of(v.n.t == k + 1), v.items[k], val)
            if v.n.lo >= 1: return En(mk_int(1, 'isize'), {1: [cell(ex, val)]}, 'Option'), T
            return En(IV(z3.If(v.n.t >= 1, 1, 0), 'isize', 0, 1), {0: [], 1: [cell(ex, val)]}, 'Option'), T
        if isinstance(v, VecV): v = v.as_array()
        if isinstance(v, Agg):
            if fn == 'len': return mk_int(len(v.f), 'usize'), T
            if fn == 'is_empty': return mk_bool(len(v.f) == 0), T
            if not v.f: return En(mk_int(0, 'isize'), {0: []}, 'Option'), T
            return En(mk_int(1, 'isize'), {1: [cell(ex, v.f[-1] if fn == 'last' else v.f[0])]}, 'Option'), T
        return None
    if re.match(r'^core::slice::<impl \[.*\]>::iter$', cs):
        v = ex.deref(args[0])
        if isinstance(v, VecV) and v.clen() is None: return VecIterV(v, mk_int(0, 'usize'), False), T
        if isinstance(v, VecV):
            from .sym import ArrIter
            return ArrIter(v.as_array(), 0), T
        return None
    if re.match(r'^<std::slice::Iter<.*> as Iterator>::rev$', cs) and isinstance(ex.deref(args[0]), VecIterV):
        it = ex.deref(args[0])
        if it.k.const() != 0: raise Inconclusive('rev of a partly consumed iterator')
        return VecIterV(it.v, it.k, not it.rev), T
    if re.match(r'^<(Rev<)?std::slice::Iter<.*>>? as Iterator>::next$', cs) and isinstance(ex.deref(args[0]), VecIterV):
        r = args[0]; it = ex.deref(r); v = it.v
        has = ex.cmp_iv('Lt', it.k, v.n)
        hi = min(v.n.hi, len(v.items))
        if has.c is False or hi == 0: return opt(mk_bool(False), [cell(ex, v.items[0] if v.items else mk_int(0, 'u8'))]), T
        idx = it.k.t if not it.rev else v.n.t - 1 - it.k.t
        val = v.items[hi - 1]
        for k in range(hi - 2, -1, -1): val = merge(bv_of(idx == k), v.items[k], val)
        nk = add_iv(it.k, mk_int(1, 'usize')) if has.c is True else IV(z3.If(has.t, it.k.t + 1, it.k.t), 'usize', it.k.lo, min(it.k.hi + 1, hi))
        ex.write_ref(r, [], VecIterV(v, nk, it.rev))
        return opt(has, [cell(ex, val)]), T
    if re.match(r'^<std::slice::Iter<.*> as Iterator>::rev$', cs):
        it = ex.deref(args[0])
        from .sym import ArrIter
        if isinstance(it, ArrIter): return ArrIter(Agg(it.arr.f[it.idx:][::-1], 'array'), 0), T
        return None
    if re.match(r'^<Rev<std::slice::Iter<.*>> as (IntoIterator>::into_iter|Iterator>::next)$', cs):
        from .sym import ArrIter
        if cs.endswith('into_iter'): return ex.deref(args[0]), T
        r = args[0]; it = ex.deref(r)
        if isinstance(it, ArrIter):
            if it.idx < len(it.arr.f):
                ex.write_ref(r, [], ArrIter(it.arr, it.idx + 1))
                return En(mk_int(1, 'isize'), {1: [cell(ex, it.arr.f[it.idx])]}, 'Option'), T
            return En(mk_int(0, 'isize'), {0: []}, 'Option'), T
        return None
    if re.match(r'^<Vec<.*> as Index<RangeFull>>::index$', cs) or re.match(r'^<Vec<.*> as Index<std::ops::RangeFull>>::index$', cs):
        v = ex.deref(args[0])
        if isinstance(v, VecV): return v.as_array(), T
        return None
    m = re.match(r'^<\[.*\] as Index<usize>>::index$', cs)
    if m:
        v = ex.deref(args[0]); i = args[1]
        if isinstance(v, VecV) and v.clen() is None:
            val, okg = v.at(ctx, i, guard, site)
            return (cell(ex, val) if val is not None else None), okg
        if isinstance(v, VecV): v = v.as_array()
        if isinstance(v, Agg):
            n = len(v.f); okc = zand(i.t >= 0, i.t < n)
            if not (i.lo >= 0 and i.hi < n): ctx.panics.append((zand(guard, znot(okc)), site, 'index out of bounds'))
            if n == 0: return None, F
            val = v.f[n - 1]
            for k in range(n - 2, -1, -1): val = merge(bv_of(i.t == k), v.f[k], val)
            return cell(ex, val), (T if (i.lo >= 0 and i.hi < n) else okc)
        return None
    m = re.match(r'^<(?:std::ops::)?Range<(\w+)> as Iterator>::step_by$', cs)
    if m and m.group(1) in INT_TYPES:
        rg_ = ex.deref(args[0]); st = args[1].const()
        if st is None: raise Inconclusive('step_by with a symbolic step')
        if st == 0: ctx.panics.append((guard, site, 'assertion failed: step != 0')); return None, F
        return StepV(rg_.f[0], rg_.f[1], st, m.group(1)), T
    m = re.match(r'^<(?:std::iter::)?StepBy<(?:std::ops::)?Range<(\w+)>> as Iterator>::collect::<Vec<\w+>>$', c)
    if m:
        sv = ex.deref(args[0])
        if not isinstance(sv, StepV): return None
        K = max(0, (sv.end.hi - sv.start.lo - 1) // sv.step + 1) if sv.end.hi > sv.start.lo else 0
        if K > 64: raise Inconclusive('step_by(..).collect() of more than 64 elements')
        items = []; n = z3.IntVal(0); nlo = 0
        for k in range(K):
            x = add_iv(sv.start, mk_int(k * sv.step, sv.ty), sv.ty)
            has = ex.cmp_iv('Lt', x, sv.end)
            items.append(x)
            if has.c is True: n = n + 1; nlo += 1
            elif has.c is None: n = n + z3.If(has.t, 1, 0)
        ctx.models_used.add('Range::step_by(const).collect::<Vec<_>>() (at most %d elements)' % K)
        return VecV(items, IV(n, 'usize', nlo, K)), T
    # ---- Vec<T> with a concrete number of elements
    m = re.match(r'^Vec::<.*>::(with_capacity|new)$', c)
    if m: return VecV([]), T
    m = re.match(r'^Vec::<.*>::push$', c)
    if m:
        r = args[0]; v = ex.deref(r)
        if not isinstance(v, VecV): return None
        ex.write_ref(r, [], v.pushed(args[1]))
        return UNIT, T
    m = re.match(r'^Vec::<.*>::(len|is_empty)$', c)
    if m:
        v = ex.deref(args[0])
        if not isinstance(v, VecV): return None
        if m.group(1) == 'len': return v.n, T
        return (mk_bool(v.clen() == 0) if v.clen() is not None else bv_of(v.n.t == 0)), T
    if re.match(r'^<Vec<.*> as Deref>::deref$', cs) or re.match(r'^Vec::<.*>::as_slice$', c):
        v = ex.deref(args[0])
        if isinstance(v, VecV): return v.as_array(), T
        return None
    m = re.match(r'^<Vec<.*> as Index<usize>>::index$', cs)
    if m:
        v = ex.deref(args[0]); i = args[1]
        if not isinstance(v, VecV): return None
        val, okg = v.at(ctx, i, guard, site)
        return (cell(ex, val) if val is not None else None), okg
    return None

def index_project(ex, v, idx):
    """place projection v[idx] on a byte string"""
    st = as_str(ex, v)
    return byte_at(st, idx)

# ---- argument hook: `&str` / `&[u8]` parameters become bounded symbolic strings
def arg_hook(ex, nm, ty, dom, strlen):
    if ty not in ('&str', '&[u8]'): return None
    L = strlen if strlen is not None else 20
    ascii_only = ex.opts.get('ascii_only', False) or ty == '&[u8]' and False
    buf = []; cons = []; names = []
    hi = 127 if ascii_only else (255 if ty == '&[u8]' else 223)
    bytedom = dom.get(nm + '#bytes', {})      # position -> (lo, hi): mirrors assumptions the property function makes itself
    for i in range(L):
        v = z3.Int('a_%s_b%d' % (nm, i))
        lo_i, hi_i = bytedom.get(i, (0, hi))
        cons += [v >= lo_i, v <= hi_i]; names.append(('__%s_b%d' % (nm, i), 'u8', v))
        buf.append(mk_int(lo_i, 'u8') if lo_i == hi_i else IV(v, 'u8', lo_i, hi_i))      # a fixed byte is a constant for the executor
    if ty == '&str' and not ascii_only:
        # valid UTF-8 made of ASCII and two-byte sequences: lead C2..DF followed by a continuation 80..BF
        for i in range(L):
            b = buf[i].t
            lead = z3.And(b >= 0xC2, b <= 0xDF); cont = z3.And(b >= 0x80, b <= 0xBF)
            cons.append(z3.Or(b < 128, lead, cont))
            if i + 1 < L: cons.append(z3.Implies(lead, z3.And(buf[i + 1].t >= 0x80, buf[i + 1].t <= 0xBF)))
            else: cons.append(z3.Not(lead))
            if i > 0: cons.append(z3.Implies(cont, z3.And(buf[i - 1].t >= 0xC2, buf[i - 1].t <= 0xDF)))
            else: cons.append(z3.Not(cont))
    names.append((nm, 'strbuf:%d' % L, buf[0].t if buf else z3.IntVal(0)))
    return StrV(buf, mk_int(0, 'usize'), mk_int(L, 'usize')), cons, names
oblig.ARG_HOOKS.append(arg_hook)

def decode_arg(nm, ty, vals, se):
    if not ty.startswith('strbuf:'): return None
    L = int(ty.split(':')[1])
    bs = bytes(vals['a_%s_b%d' % (nm, i)] for i in range(L))
    return bs.hex() if bs else '-'
oblig.ARG_DECODERS.append(decode_arg)

def exec_hook(ex, ob):
    ex.extra_models.append(string_model)
oblig.EXEC_HOOKS.append(exec_hook)
