"""Bounded string layer: a `&str` is (buffer of L symbolic bytes, start, len); the std string functions the crate's
RFC 3339 reader and TZ-footer reader use are modelled on that representation. Inputs are all strings of a given byte
length over ASCII plus two-byte UTF-8 sequences (U+0080..U+07FF); char-boundary panics of str slicing are modelled.
Strings containing 3- or 4-byte characters are outside the bound."""
import re
import z3
from .sym import (IV, BV, Agg, En, Ref, Opaque, StrLit, StrSel, Closure, UNIT, T, F, mk_int, mk_bool, bv_of, zand, zor, znot,
                  ty_range, Inconclusive, INT_TYPES, ite_iv, merge)
from . import oblig, models
from .models import call_closure, en2, cell

class StrV:
    is_strlike = True
    __slots__ = ('buf', 'start', 'len')
    def __init__(s, buf, start, ln): s.buf = buf; s.start = start; s.len = ln
    def __repr__(s): return 'StrV(L=%d,start=%s,len=%s)' % (len(s.buf), s.start, s.len)
    def merge_with(s, c, other):
        if isinstance(other, StrV) and other.buf is s.buf:
            return StrV(s.buf, ite_iv(c, s.start, other.start), ite_iv(c, s.len, other.len))
        return None
    def length(s): return s.len
class CharsV:
    __slots__ = ('s', 'pos')
    def __init__(s, st, pos): s.s = st; s.pos = pos
    def merge_with(s, c, other):
        if isinstance(other, CharsV) and other.s.buf is s.s.buf:
            st = s.s.merge_with(c, other.s)
            return CharsV(st, ite_iv(c, s.pos, other.pos))
        return None
class TakeWhileV:
    __slots__ = ('ch', 'clo')
    def __init__(s, ch, clo): s.ch = ch; s.clo = clo

def add_iv(a, b, ty='usize'):
    if a.const() is not None and b.const() is not None: return mk_int(a.const() + b.const(), ty)
    return IV(a.t + b.t, ty, a.lo + b.lo, a.hi + b.hi)
def sub_iv(a, b, ty='usize'):
    if a.const() is not None and b.const() is not None: return mk_int(a.const() - b.const(), ty)
    return IV(a.t - b.t, ty, a.lo - b.hi, a.hi - b.lo)

def as_str(ex, v):
    v = ex.deref(v)
    if isinstance(v, StrLit):
        buf = [mk_int(b, 'u8') for b in v.b]
        return StrV(buf, mk_int(0, 'usize'), mk_int(len(buf), 'usize'))
    if isinstance(v, StrV): return v
    raise Inconclusive('not a modelled string: %r' % (v,))

def byte_at(st, idx):
    """byte of st at relative index idx (IV); meaningful only where idx < len"""
    pos = add_iv(st.start, idx)
    n = len(st.buf)
    if pos.const() is not None:
        k = pos.const()
        return st.buf[k] if 0 <= k < n else mk_int(0, 'u8')
    lo = max(pos.lo, 0); hi = min(pos.hi, n - 1)
    if hi < lo: return mk_int(0, 'u8')
    t = st.buf[hi].t
    for k in range(hi - 1, lo - 1, -1): t = z3.If(pos.t == k, st.buf[k].t, t)
    return IV(t, 'u8', min(b.lo for b in st.buf[lo:hi + 1]), max(b.hi for b in st.buf[lo:hi + 1]))

def is_cont(b):
    if b.hi < 128: return F
    return z3.And(b.t >= 128, b.t <= 191)

def boundary(st, idx):
    """idx (relative) is a char boundary of st: 0, len, or not a continuation byte"""
    b = byte_at(st, idx)
    return zor(idx.t == 0, idx.t == st.len.t, znot(is_cont(b)))

def char_at(st, idx):
    """scalar value of the char starting at relative byte index idx (ASCII or two-byte sequence)"""
    b0 = byte_at(st, idx)
    if b0.hi < 128: return IV(b0.t, 'char', b0.lo, b0.hi)
    b1 = byte_at(st, add_iv(idx, mk_int(1, 'usize')))
    return IV(z3.If(b0.t < 128, b0.t, (b0.t - 192) * 64 + (b1.t - 128)), 'char', 0, 0x7FF)

def parse_int(ex, st, ty):
    """<int>::from_str: optional '+' (and '-' for signed), at least one digit, overflow -> Err"""
    signed = INT_TYPES[ty][1] == 1; tlo, thi = ty_range(ty)
    lo = max(st.len.lo, 0); hi = min(st.len.hi, len(st.buf))
    res_ok = None; res_val = None
    for k in range(hi, lo - 1, -1):
        if k == 0: okk = F; valk = z3.IntVal(0)
        else:
            bs = [byte_at(st, mk_int(i, 'usize')) for i in range(k)]
            isd = [z3.And(b.t >= 48, b.t <= 57) for b in bs]
            def num(js):
                t = z3.IntVal(0)
                for j in js: t = t * 10 + (bs[j].t - 48)
                return t
            plain_ok = z3.And(*isd); plain_val = num(range(k))
            if k > 1:
                plus = bs[0].t == 43; minus = (bs[0].t == 45) if signed else F
                rest_ok = z3.And(*isd[1:]); rest_val = num(range(1, k))
                okk = z3.Or(plain_ok, z3.And(z3.Or(plus, minus), rest_ok))
                valk = z3.If(plain_ok, plain_val, z3.If(minus, -rest_val, rest_val))
            else: okk = plain_ok; valk = plain_val
            okk = z3.And(okk, valk >= tlo, valk <= thi)
        if res_ok is None: res_ok, res_val = okk, valk
        else:
            c = st.len.t == k
            res_ok = z3.If(c, okk, res_ok); res_val = z3.If(c, valk, res_val)
    if res_ok is None: res_ok = F; res_val = z3.IntVal(0)
    ok = bv_of(z3.simplify(res_ok)) if z3.is_bool(res_ok) else bv_of(res_ok)
    notok = mk_bool(not ok.c) if ok.c is not None else BV(z3.Not(ok.t))
    return en2(notok, [IV(res_val, ty, tlo, thi)], [Opaque('ParseIntError')], 'Result')

def call_pred(ex, clo, ch, guard, by_ref):
    arg = cell(ex, ch) if by_ref else ch
    v, rg = call_closure(ex, clo, [arg], guard)
    return v

def chars_remaining(ch):
    rem = sub_iv(ch.s.len, ch.pos)
    maxlen = max(0, min(rem.hi, len(ch.s.buf)))
    return rem, maxlen

def string_model(ex, c, args, guard, site):
    ctx = ex.ctx
    cs = ex.strip_generics(c)
    if cs in ('core::str::<impl str>::len', 'String::len', 'core::str::<impl str>::as_bytes', '<String as Deref>::deref', 'String::as_str', 'core::str::<impl str>::as_str',
              'String::as_bytes', '<str as AsRef<[u8]>>::as_ref', 'core::slice::<impl [u8]>::len'):
        v = ex.deref(args[0])
        if isinstance(v, (StrV, StrLit)):
            st = as_str(ex, v)
            ctx.models_used.add(cs)
            return (st.len if cs.endswith('::len') else st), T
        return None
    m = re.match(r'^<(?:str|String) as Index<(?:std::ops::)?(Range|RangeFrom|RangeTo)<usize>>>::index$', cs) or \
        re.match(r'^core::str::traits::<impl Index<(?:std::ops::)?(Range|RangeFrom|RangeTo)<usize>> for str>::index$', cs)
    if m:
        v = ex.deref(args[0])
        if not isinstance(v, (StrV, StrLit)): return None
        st = as_str(ex, v); r = ex.deref(args[1]); kind = m.group(1)
        a = r.f[0] if kind != 'RangeTo' else mk_int(0, 'usize')
        b = r.f[1] if kind == 'Range' else (r.f[0] if kind == 'RangeTo' else st.len)
        okc = zand(a.t <= b.t, b.t <= st.len.t, boundary(st, a), boundary(st, b))
        ctx.models_used.add('str Index<%s<usize>> (bounds and char-boundary panics)' % kind)
        if not z3.is_true(okc): ctx.panics.append((zand(guard, znot(okc)), site, 'str slice index out of range or not a char boundary'))
        return StrV(st.buf, add_iv(st.start, a), IV(b.t - a.t, 'usize', max(0, b.lo - a.hi), max(0, b.hi - a.lo))), okc
    # byte-slice indexing by a range: bounds panic only (no char boundaries)
    m = re.match(r'^<\[u8\] as Index<(?:std::ops::)?(Range|RangeFrom|RangeTo)<usize>>>::index$', cs) or \
        re.match(r'^core::slice::index::<impl Index<(?:std::ops::)?(Range|RangeFrom|RangeTo)<usize>> for \[u8\]>::index$', cs)
    if m:
        v = ex.deref(args[0])
        if not isinstance(v, (StrV, StrLit)): return None
        st = as_str(ex, v); r = ex.deref(args[1]); kind = m.group(1)
        a = r.f[0] if kind != 'RangeTo' else mk_int(0, 'usize')
        b = r.f[1] if kind == 'Range' else (r.f[0] if kind == 'RangeTo' else st.len)
        okc = zand(a.t <= b.t, b.t <= st.len.t)
        ctx.models_used.add('[u8] Index<%s<usize>> (bounds panic)' % kind)
        if not z3.is_true(okc): ctx.panics.append((zand(guard, znot(okc)), site, 'byte slice index out of range'))
        return StrV(st.buf, add_iv(st.start, a), IV(b.t - a.t, 'usize', max(0, b.lo - a.hi), max(0, b.hi - a.lo))), okc
    m = re.match(r'^core::str::<impl str>::parse::<(\w+)>$', c)
    if m and m.group(1) in INT_TYPES:
        v = ex.deref(args[0])
        if not isinstance(v, (StrV, StrLit)): return None
        ctx.models_used.add('str::parse::<%s>' % m.group(1))
        return parse_int(ex, as_str(ex, v), m.group(1)), T
    if cs == 'core::str::<impl str>::chars':
        v = ex.deref(args[0])
        if not isinstance(v, (StrV, StrLit)): return None
        ctx.models_used.add(cs)
        return CharsV(as_str(ex, v), mk_int(0, 'usize')), T
    if cs == "<Chars<'_> as Iterator>::nth" or cs == "<Chars<'_> as Iterator>::next":
        r = args[0]; ch = ex.deref(r)
        if not isinstance(ch, CharsV): return None
        n = args[1] if cs.endswith('nth') else mk_int(0, 'usize')
        k = n.const()
        if k is None: raise Inconclusive('Chars::nth with a symbolic index')
        rem, maxlen = chars_remaining(ch)
        # byte offset (relative to pos) of the k-th char start: the j with start_j and #starts before j == k
        found = F; joff = z3.IntVal(0); cnt = z3.IntVal(0)
        cands = []
        for j in range(maxlen):
            bj = byte_at(ch.s, add_iv(ch.pos, mk_int(j, 'usize')))
            st_j = znot(is_cont(bj))
            hit = zand(j < rem.t, st_j, cnt == k)
            cands.append((hit, j))
            cnt = cnt + z3.If(st_j, 1, 0) if not z3.is_true(st_j) else cnt + 1
            if z3.is_true(st_j) and z3.is_int_value(z3.simplify(cnt)) and z3.simplify(cnt).as_long() > k: break
        for hit, j in reversed(cands):
            joff = z3.If(hit, j, joff); found = zor(hit, found)
        jiv = IV(joff, 'usize', 0, max(0, maxlen - 1))
        cv = char_at(ch.s, add_iv(ch.pos, jiv))
        clen = z3.If(byte_at(ch.s, add_iv(ch.pos, jiv)).t < 128, 1, 2)
        newpos = IV(z3.If(found, ch.pos.t + joff + clen, ch.s.len.t), 'usize', 0, len(ch.s.buf))
        ex.write_ref(r, [], CharsV(ch.s, newpos))
        ctx.models_used.add(cs)
        fb = bv_of(found)
        return en2(fb, [], [cv], 'Option'), T
    if cs.startswith("<Chars<'_> as Iterator>::take_while"):
        return TakeWhileV(ex.deref(args[0]), args[1]), T
    if cs.startswith("<TakeWhile<Chars<'_>,") and cs.endswith("as Iterator>::collect"):
        tw = ex.deref(args[0]); ch = tw.ch; st = ch.s
        rem, maxlen = chars_remaining(ch)
        plen = z3.IntVal(maxlen)
        for j in range(maxlen - 1, -1, -1):
            p = add_iv(ch.pos, mk_int(j, 'usize'))
            st_j = znot(is_cont(byte_at(st, p)))
            cnd = call_pred(ex, tw.clo, char_at(st, p), guard, True)
            stop = zor(j >= rem.t, zand(st_j, znot(cnd.t)))
            plen = z3.If(stop, j, plen)
        plen = z3.If(rem.t <= 0, 0, plen) if maxlen > 0 else z3.IntVal(0)
        ctx.models_used.add('Chars::take_while(..).collect::<String>()')
        return StrV(st.buf, add_iv(st.start, ch.pos), IV(plen, 'usize', 0, maxlen)), T
    if cs.startswith("<Chars<'_> as Iterator>::all") or cs.startswith("<Chars<'_> as Iterator>::any"):
        r = args[0]; ch = ex.deref(r); st = ch.s; clo = args[1]
        is_all = '::all' in cs
        rem, maxlen = chars_remaining(ch)
        acc = []
        for j in range(maxlen):
            p = add_iv(ch.pos, mk_int(j, 'usize'))
            st_j = znot(is_cont(byte_at(st, p)))
            cnd = call_pred(ex, clo, char_at(st, p), guard, False)
            inside = zand(j < rem.t, st_j)
            acc.append(z3.Implies(inside, cnd.t) if is_all else zand(inside, cnd.t))
        ctx.models_used.add('Chars::all/any')
        ex.write_ref(r, [], CharsV(st, st.len))
        return bv_of(zand(*acc) if is_all else zor(*acc)), T
    if cs.startswith("<Chars<'_> as Iterator>::position"):
        r = args[0]; ch = ex.deref(r); st = ch.s; clo = args[1]
        rem, maxlen = chars_remaining(ch)
        found = F; pos = z3.IntVal(0); cnt = z3.IntVal(0); items = []
        for j in range(maxlen):
            p = add_iv(ch.pos, mk_int(j, 'usize'))
            st_j = znot(is_cont(byte_at(st, p)))
            cnd = call_pred(ex, clo, char_at(st, p), guard, False)
            items.append((zand(j < rem.t, st_j, cnd.t), cnt))
            cnt = cnt + (1 if z3.is_true(st_j) else z3.If(st_j, 1, 0))
        for hit, cn in reversed(items):
            pos = z3.If(hit, cn, pos); found = zor(hit, found)
        ctx.models_used.add('Chars::position')
        return en2(bv_of(found), [], [IV(pos, 'usize', 0, max(0, maxlen - 1))], 'Option'), T
    if re.match(r'^core::str::<impl str>::(starts_with|ends_with)$', cs):
        v = ex.deref(args[0])
        if not isinstance(v, (StrV, StrLit)): return None
        st = as_str(ex, v); pat = ex.deref(args[1])
        if isinstance(pat, IV):
            if pat.hi >= 128: raise Inconclusive('starts_with(non-ASCII char)')
            if cs.endswith('starts_with'):
                b = byte_at(st, mk_int(0, 'usize'))
                return bv_of(zand(st.len.t > 0, b.t == pat.t)), T
            b = byte_at(st, sub_iv(st.len, mk_int(1, 'usize')))
            return bv_of(zand(st.len.t > 0, b.t == pat.t)), T
        if isinstance(pat, StrLit):
            k = len(pat.b)
            if cs.endswith('starts_with'):
                return bv_of(zand(st.len.t >= k, *[byte_at(st, mk_int(i, 'usize')).t == pat.b[i] for i in range(k)])), T
            return bv_of(zand(st.len.t >= k, *[byte_at(st, IV(st.len.t - k + i, 'usize', st.len.lo - k + i, st.len.hi - k + i)).t == pat.b[i] for i in range(k)])), T
        return None
    if cs in ('core::str::<impl str>::is_ascii', 'core::slice::ascii::<impl [u8]>::is_ascii', 'core::slice::<impl [u8]>::is_ascii'):
        v = ex.deref(args[0])
        if not isinstance(v, (StrV, StrLit)): return None
        st = as_str(ex, v)
        mx = max(0, min(st.len.hi, len(st.buf)))
        conds = []
        for j in range(mx):
            conds.append(z3.Or(j >= st.len.t, byte_at(st, mk_int(j, 'usize')).t < 128))
        ctx.models_used.add(cs)
        return bv_of(zand(*conds)), T
    if cs == 'core::str::<impl str>::is_empty' or cs == 'String::is_empty':
        v = ex.deref(args[0])
        if not isinstance(v, (StrV, StrLit)): return None
        return ex.cmp_iv('Eq', as_str(ex, v).len, mk_int(0, 'usize')), T
    if cs == 'core::str::<impl str>::is_char_boundary':
        v = ex.deref(args[0])
        if not isinstance(v, (StrV, StrLit)): return None
        st = as_str(ex, v); i = args[1]
        return bv_of(zand(i.t <= st.len.t, boundary(st, i))), T
    return None

def index_project(ex, v, idx):
    """place projection v[idx] on a byte string"""
    st = as_str(ex, v)
    return byte_at(st, idx)

# ---- argument hook: `&str` / `&[u8]` parameters become bounded symbolic strings
def arg_hook(ex, nm, ty, dom, strlen):
    if ty not in ('&str', '&[u8]'): return None
    L = strlen if strlen is not None else 20
    ascii_only = ex.opts.get('ascii_only', False) or ty == '&[u8]' and False
    buf = []; cons = []; names = []
    hi = 127 if ascii_only else (255 if ty == '&[u8]' else 223)
    bytedom = dom.get(nm + '#bytes', {})      # position -> (lo, hi): mirrors assumptions the property function makes itself
    for i in range(L):
        v = z3.Int('a_%s_b%d' % (nm, i))
        lo_i, hi_i = bytedom.get(i, (0, hi))
        buf.append(IV(v, 'u8', lo_i, hi_i)); cons += [v >= lo_i, v <= hi_i]; names.append(('__%s_b%d' % (nm, i), 'u8', v))
    if ty == '&str' and not ascii_only:
        # valid UTF-8 made of ASCII and two-byte sequences: lead C2..DF followed by a continuation 80..BF
        for i in range(L):
            b = buf[i].t
            lead = z3.And(b >= 0xC2, b <= 0xDF); cont = z3.And(b >= 0x80, b <= 0xBF)
            cons.append(z3.Or(b < 128, lead, cont))
            if i + 1 < L: cons.append(z3.Implies(lead, z3.And(buf[i + 1].t >= 0x80, buf[i + 1].t <= 0xBF)))
            else: cons.append(z3.Not(lead))
            if i > 0: cons.append(z3.Implies(cont, z3.And(buf[i - 1].t >= 0xC2, buf[i - 1].t <= 0xDF)))
            else: cons.append(z3.Not(cont))
    names.append((nm, 'strbuf:%d' % L, buf[0].t if buf else z3.IntVal(0)))
    return StrV(buf, mk_int(0, 'usize'), mk_int(L, 'usize')), cons, names
oblig.ARG_HOOKS.append(arg_hook)

def decode_arg(nm, ty, vals, se):
    if not ty.startswith('strbuf:'): return None
    L = int(ty.split(':')[1])
    bs = bytes(vals['a_%s_b%d' % (nm, i)] for i in range(L))
    return bs.hex() if bs else '-'
oblig.ARG_DECODERS.append(decode_arg)

def exec_hook(ex, ob):
    ex.extra_models.append(string_model)
oblig.EXEC_HOOKS.append(exec_hook)
