"""Parser for rustc's `-Zunpretty=mir` text (pinned nightly). Fails closed: anything not recognised raises."""
import re, os

class MirError(Exception):
    pass

class Fn:
    __slots__ = ('name', 'params', 'ret', 'locals', 'blocks', 'kind', 'rpo_idx', 'loopinfo', 'succ', 'srcline', 'debug')
    def __init__(self):
        self.rpo_idx = None; self.loopinfo = None; self.succ = None; self.srcline = None; self.debug = {}

def split_top(s, sep=','):
    """split on `sep` at nesting depth 0, respecting (), [], {}, <> and string/char literals"""
    out = []; depth = 0; cur = []; i = 0; n = len(s)
    while i < n:
        ch = s[i]
        if ch == '"':
            j = i + 1
            while j < n and s[j] != '"':
                if s[j] == '\\': j += 1
                j += 1
            cur.append(s[i:j + 1]); i = j + 1; continue
        if ch == "'" and i + 2 < n:
            # char literal 'x' or '\n' (lifetimes like '_ have no closing quote right after)
            m = re.match(r"'(\\.|\\u\{[0-9a-fA-F]+\}|[^'\\])'", s[i:])
            if m:
                cur.append(m.group(0)); i += len(m.group(0)); continue
        if ch in '([{': depth += 1
        elif ch in ')]}': depth -= 1
        elif ch == '<': depth += 1
        elif ch == '>':
            if i > 0 and s[i - 1] == '-': pass      # '->'
            else: depth -= 1
        if ch == sep and depth == 0:
            out.append(''.join(cur).strip()); cur = []
        else:
            cur.append(ch)
        i += 1
    t = ''.join(cur).strip()
    if t: out.append(t)
    return out

_RE_FN = re.compile(r'^fn (.+?)\((.*)\) -> (.+) \{$')
_RE_LET = re.compile(r'^let (?:mut )?(_\d+): (.+);$')
_RE_BB = re.compile(r'^(bb\d+)(?: \(cleanup\))?: \{$')
_SKIP = ('debug ', 'scope ', 'let ')

def _parse_body(lines, i, f):
    cur = None; cleanup = set()
    while lines[i] != '}':
        s = lines[i].strip()
        mm = _RE_LET.match(s)
        if mm:
            f.locals[mm.group(1)] = mm.group(2)
        elif cur is None and s.startswith('debug '):
            md = re.match(r'^debug (\w+) => (_\d+);$', s)
            if md and md.group(2) not in f.debug: f.debug[md.group(2)] = md.group(1)
        else:
            mm = _RE_BB.match(s)
            if mm:
                cur = mm.group(1); f.blocks[cur] = []
                if '(cleanup)' in s: cleanup.add(cur)
            elif s == '}':
                if lines[i].startswith('    }'): cur = None
            elif cur and s and not s.startswith(_SKIP):
                f.blocks[cur].append(s)
        i += 1
    for b in cleanup:
        del f.blocks[b]
    return i

def parse_mir(text):
    fns = {}; consts = {}
    lines = text.split('\n'); i = 0; n = len(lines)
    while i < n:
        l = lines[i]
        m = _RE_FN.match(l)
        if m:
            f = Fn(); f.name = m.group(1); f.params = []; f.ret = m.group(3); f.locals = {}; f.blocks = {}; f.kind = 'fn'
            for a in split_top(m.group(2)):
                mm = re.match(r'(_\d+): (.+)$', a)
                if mm:
                    f.params.append(mm.group(1)); f.locals[mm.group(1)] = mm.group(2)
            f.locals['_0'] = f.ret
            i = _parse_body(lines, i + 1, f)
            # enum constructor shims appear twice with identical bodies; keep the first
            fns.setdefault(f.name, f)
        else:
            m = re.match(r'^(?:const|static) (.+): (.+?) = const (.+);$', l)
            if m:
                consts[m.group(1)] = ('lit', m.group(3), m.group(2))
            else:
                m = re.match(r'^(?:const|static) (.+): (.+?) = \{$', l)
                if m:
                    f = Fn(); f.name = m.group(1); f.params = []; f.ret = m.group(2); f.locals = {'_0': m.group(2)}; f.blocks = {}; f.kind = 'const'
                    i = _parse_body(lines, i + 1, f)
                    consts[f.name] = ('body', f)
        i += 1
    return fns, consts

_RE_IMPL_AT = re.compile(r'^(.*)<impl at (src/[\w/\.]+):(\d+):(\d+): (\d+):(\d+)>::(\w+)(.*)$')

def build_impl_index(fns, srcroot):
    """(TypeName, TraitName|None, method) -> fn name, by reading the source line `<impl at file:line:col>` points to."""
    idx = {}
    cache = {}
    for n in fns:
        m = _RE_IMPL_AT.match(n)
        if not m or m.group(8): continue
        path = os.path.join(srcroot, m.group(2))
        if path not in cache:
            cache[path] = open(path).read().split('\n')
        lines = cache[path]
        ln = int(m.group(3)); line = lines[ln - 1]
        meth = m.group(7)
        if line.lstrip().startswith('#[derive'):
            tr = line[int(m.group(4)) - 1:int(m.group(6)) - 1]
            for l2 in lines[ln:ln + 8]:
                mm = re.match(r'^\s*(?:pub(?:\([\w]+\))? )?(?:struct|enum) (\w+)', l2)
                if mm:
                    idx[(mm.group(1), tr, meth)] = n; break
            continue
        mm = re.match(r'^\s*impl(?:<.*?>)? (?:([\w:]+)(?:<(.*)>)? for )?&?(\w+)', line[int(m.group(4)) - 1:])
        if mm:
            tr = mm.group(1).split('::')[-1] if mm.group(1) else None
            targ = mm.group(2)
            if targ: idx[(mm.group(3), '%s<%s>' % (tr, re.sub(r'\w+::', '', targ).replace(' ', '')), meth)] = n
            else: idx[(mm.group(3), tr, meth)] = n
    return idx

def parse_enums(srcroot):
    """enum name -> [variant names] (declaration order) for every enum declared in the crate sources"""
    enums = {}
    for root, _, files in os.walk(srcroot):
        for fn in files:
            if not fn.endswith('.rs'): continue
            txt = open(os.path.join(root, fn)).read()
            for m in re.finditer(r'\benum (\w+)\s*\{', txt):
                j = m.end(); depth = 1; body = []
                while depth and j < len(txt):
                    ch = txt[j]
                    if ch in '{(': depth += 1
                    elif ch in '})': depth -= 1
                    body.append(ch); j += 1
                b = ''.join(body[:-1])
                b = re.sub(r'//[^\n]*', '', b); b = re.sub(r'#\[[^\]]*\]', '', b)
                # strip payloads
                out = []; d = 0; cur = ''
                for ch in b:
                    if ch in '({': d += 1
                    elif ch in ')}': d -= 1
                    elif d == 0: cur += ch
                names = [re.sub(r'\s*=.*', '', x).strip() for x in cur.split(',')]
                enums[m.group(1)] = [x for x in names if x]
    return enums
