"""Obligations: one property function x one profile x one domain slice -> solver queries -> verdict."""
import os, re, sys, json, time, random, traceback, zlib
import z3
from .sym import (Exec, Ctx, IV, BV, Agg, En, Ref, Opaque, Inconclusive, MergeFail, ty_range, INT_TYPES, T, F, zand, zor, znot, mk_int)
from .mir import MirError
from . import solve, models

class Ob:
    """obligation specification"""
    def __init__(self, fn, kind=None, dom=None, slices=None, abstractions=(), unwind=16, timeout=None, profiles=('on', 'off'),
                 note='', kf=None, opts=None, loop_unwind=None, strlen=None, solvers=None, validate=True, window=None):
        self.fn = fn
        self.kind = kind or ('mustpanic' if fn.endswith('_mustpanic') else 'holds')
        self.dom = dom or {}; self.slices = slices or [{}]; self.abstractions = tuple(abstractions)
        self.unwind = unwind; self.timeout = timeout; self.profiles = profiles; self.note = note
        self.kf = kf or []        # known-finding class predicates (fn names) to assume away
        self.opts = opts or {}; self.loop_unwind = loop_unwind or {}
        self.strlen = strlen; self.solvers = solvers; self.validate = validate; self.window = window
        self.custom = None      # callable(prog, ob, checks_on, qdir, timeout, cross) -> record, for obligations cut out of a function's CFG

ABSTRACTION_TABLE = {}     # filled by checks (name -> factory(ex) -> Abstraction)

def make_args(ex, f, dom, strlen=None):
    """symbolic arguments for property function f. returns (values, domain constraints, [(name, kind, var)])"""
    args = []; cons = []; names = []
    for p in f.params:
        ty = f.locals[p]; nm = f.debug.get(p, p)
        if ty == 'bool':
            v = z3.Bool('a_' + nm); names.append((nm, 'bool', v))
            if nm in dom and isinstance(dom[nm], bool):
                from .sym import mk_bool
                args.append(mk_bool(dom[nm])); cons.append(v == dom[nm])
            else: args.append(BV(v))
            continue
        if ty in INT_TYPES:
            lo, hi = ty_range(ty)
            if nm in dom: lo, hi = max(lo, dom[nm][0]), min(hi, dom[nm][1])
            v = z3.Int('a_' + nm); args.append(IV(v, ty, lo, hi)); cons += [v >= lo, v <= hi]; names.append((nm, ty, v)); continue
        made = None
        for hook in ARG_HOOKS:
            made = hook(ex, nm, ty, dom, strlen)
            if made is not None: break
        if made is None: raise Inconclusive('unsupported parameter type %s of %s' % (ty, f.name))
        val, c2, n2 = made
        args.append(val); cons += c2; names += n2
    return args, cons, names

ARG_HOOKS = []

def boundary_values(ty, lo, hi, rng, extra=()):
    c = {lo, hi, lo + 1, hi - 1, 0, 1, -1, 2, 59, 60, 61, 28, 29, 30, 31, 32, 12, 13, 365, 366, 367, 719162, 719163, -719162,
         86399, 86400, 86401, -86399, -86400, 10 ** 9, 10 ** 9 - 1, 86_400_000_000_000, 86_400_000_000_000 - 1,
         2 ** 31 - 1, 2 ** 31, -2 ** 31, 2 ** 32 - 1, 2 ** 32, 2 ** 63 - 1, -2 ** 63, 5_124_096, 6_000_000, 738_000, -1_000_000, 146097, -146097, 730179}
    c |= set(extra)
    c = [x for x in c if lo <= x <= hi]
    out = list(c)
    for _ in range(8): out.append(rng.randint(lo, hi))
    # values of moderate magnitude
    for _ in range(8):
        x = rng.randint(-10 ** 6, 10 ** 6)
        if lo <= x <= hi: out.append(x)
    return out

def sym_execute(prog, ob, slice_dom, checks_on):
    """run the executor on ob.fn; returns dict with terms"""
    ctx = Ctx()
    opts = dict(ob.opts); opts['overflow_checks'] = checks_on
    ex = Exec(prog.fns, prog.consts, prog.impl, prog.enums, ctx=ctx, unwind=ob.unwind, opts=opts)
    ex.loop_unwind = dict(ob.loop_unwind)
    for hook in EXEC_HOOKS: hook(ex, ob)
    for a in ob.abstractions:
        ab = ABSTRACTION_TABLE[a](ex)
        ex.abstractions[ab.fn_last] = ab
    f = prog.fn(ob.fn)
    dom = dict(ob.dom); dom.update(slice_dom)
    args, cons, names = make_args(ex, f, dom, ob.strlen)
    ex.dom_constraints = list(cons)
    ex.scratch = prog.scratch
    t0 = time.time()
    val, rg = ex.call_body(f, args, T)
    # known-finding classes: assume(!class(args))
    kfc = []
    for k in ob.kf:
        kf = prog.fn(k)
        np_ = len(ctx.panics)
        ex.in_contract += 1
        v, g2 = ex.call_body(kf, args, T)
        ex.in_contract -= 1
        del ctx.panics[np_:]
        kfc.append((k, zand(g2, v.t)))
    return {'ex': ex, 'ctx': ctx, 'args': args, 'dom': cons, 'names': names, 'rg': rg, 'val': val, 'symex_s': time.time() - t0, 'kf': kfc}

EXEC_HOOKS = []

def model_to_args(names, vals, buf_decoders=None):
    out = []
    for nm, ty, v in names:
        key = str(v)
        if key not in vals and ('|%s|' % key) in vals: key = '|%s|' % key
        out.append(vals.get(key))
    return out

def run_slice(prog, ob, slice_dom, checks_on, qdir, tier_timeout, validate_points=None, seed=0, cross_check=False):
    """decide one (obligation, profile, slice). returns a JSON-able record."""
    rec = {'fn': ob.fn, 'kind': ob.kind, 'profile': 'overflow-checks=' + ('on' if checks_on else 'off'), 'slice': {k: (list(v) if isinstance(v, (tuple, list)) else v) for k, v in slice_dom.items()},
           'abstractions': list(ob.abstractions), 'known_finding_classes_assumed_away': list(ob.kf), 'ob_note': ob.note}
    t_start = time.time()
    # wall-clock cap on the symbolic execution itself (term growth on shapes the string layer handles badly must end as inconclusive)
    import signal
    cap = int(ob.opts.get('symex_cap', max(120, min(int(ob.timeout or tier_timeout), 900))))
    fired = []
    def _alarm(sig, frm): fired.append(1); raise TimeoutError('symbolic execution time cap')
    old_h = None
    try: old_h = signal.signal(signal.SIGALRM, _alarm); signal.alarm(cap)
    except (ValueError, AttributeError): old_h = None
    try:
        se = sym_execute(prog, ob, slice_dom, checks_on)
    except BaseException as e:
        if not fired and not isinstance(e, (Inconclusive, MergeFail, MirError, KeyError, AttributeError, IndexError, TypeError, AssertionError, ValueError, RecursionError)): raise
        why = ('time cap of %d s reached' % cap) if fired else '%s: %s' % (type(e).__name__, e)
        rec.update(verdict='inconclusive', reason='symbolic execution: ' + why, trace=traceback.format_exc()[-1500:])
        return rec
    finally:
        try:
            signal.alarm(0)
            if old_h is not None: signal.signal(signal.SIGALRM, old_h)
        except (ValueError, AttributeError): pass
    ctx = se['ctx']; ex = se['ex']
    base = list(se['dom']) + list(ctx.side) + [znot(c) for _, c in se['kf']]
    panic_or = zor(*[g for g, _, _ in ctx.panics])
    unw_or = zor(*[g for g, _ in ctx.unwound])
    cpan_or = zor(*[g for g, _, _ in getattr(ctx, 'contract_panics', [])])
    if ob.kind == 'holds': viol, wit = panic_or, se['rg']
    elif ob.kind == 'mustpanic': viol, wit = se['rg'], panic_or
    else: raise Inconclusive('kind ' + ob.kind)
    rec.update(symex_s=round(se['symex_s'], 3), panic_sites=len(ctx.panics), side_constraints=len(ctx.side), unwound_states=len(ctx.unwound),
               functions_encoded=sorted(ctx.reached), std_models=sorted(ctx.models_used), abstractions_used=sorted(getattr(ctx, 'abstractions_used', set())))
    timeout = ob.timeout or tier_timeout
    argnames = [str(v) for _, _, v in se['names']]
    tag = '%s_%s_%s' % (ob.fn, 'on' if checks_on else 'off', zlib.crc32(json.dumps([rec["slice"], ob.strlen, sorted((str(k), str(v)) for k, v in ob.dom.items()), ob.note], sort_keys=True).encode()))
    queries = []
    def ask(label, extra, want, tmo):
        if z3.is_false(extra):
            r = solve.Result('unsat', 'trivial', 0.0)
        else:
            txt = solve.to_smt2(base + [extra])
            path = os.path.join(qdir, '%s_%s.smt2' % (tag, label))
            open(path, 'w').write(txt)
            r = solve.race(path, tmo, solvers=ob.solvers or (solve.PORTFOLIO_CROSS if cross_check else solve.PORTFOLIO), need_all=cross_check)
            r.text = txt
        queries.append({'query': label, 'verdict': r.verdict, 'solver': r.solver, 'secs': round(r.secs, 3), 'wanted': want, 'cross_check': r.detail if cross_check else None,
                        'all': {k: (v[0], round(v[1], 2)) for k, v in (r.all_answers or {}).items()}})
        return r
    # translator validation on concrete points (before the expensive queries)
    if validate_points:
        vr = validate_encoding(prog, ob, se, base, viol, wit, validate_points, checks_on)
        rec['validation'] = vr
        if vr['disagreements']:
            rec.update(verdict='inconclusive', reason='encoding disagrees with the native build on %d concrete points, e.g. %s' % (len(vr['disagreements']), vr['disagreements'][0]), queries=queries)
            return rec
    if ob.opts.get('validate_only'):
        # an obligation that exists to compare the encoding with the native build on concrete points (its assertion is not a claim)
        rec['wall_s'] = round(time.time() - t_start, 2); rec['queries'] = queries
        if validate_points and rec['validation']['agree'] > 0: rec.update(verdict='holds', reason='encoding validation only: %d/%d concrete points agree with the native build' % (rec['validation']['agree'], rec['validation']['points']))
        else: rec.update(verdict='inconclusive', reason='encoding validation produced no comparable point')
        return rec
    # vacuity witness
    rw = ask('witness', wit, 'sat', min(timeout, 300))
    rec['vacuity_witness'] = rw.verdict
    # unwinding assertion
    if ctx.unwound:
        ru = ask('unwinding', unw_or, 'unsat', timeout)
        if ru.verdict != 'unsat':
            rec.update(verdict='inconclusive', reason='unwinding bound %d not sufficient (%s) at %s' % (ob.unwind, ru.verdict, sorted({w for _, w in ctx.unwound})[:4]), queries=queries); return rec
    if getattr(ctx, 'contract_panics', None):
        rc = ask('contract_total', cpan_or, 'unsat', timeout)
        if rc.verdict != 'unsat':
            rec.update(verdict='inconclusive', reason='contract predicate may panic (%s)' % rc.verdict, queries=queries); return rec
    rv = ask('violation', viol, 'unsat', timeout)
    rec['queries'] = queries
    rec['wall_s'] = round(time.time() - t_start, 2)
    rec['solver_s'] = round(sum(q['secs'] for q in queries), 3)
    if rv.verdict == 'unsat':
        if rw.verdict == 'sat': rec['verdict'] = 'holds'
        elif rw.verdict == 'unsat': rec.update(verdict='inconclusive', reason='vacuous: the %s is unreachable under the assumptions' % ('end of the function' if ob.kind == 'holds' else 'panic'))
        else: rec.update(verdict='inconclusive', reason='vacuity witness undecided: ' + rw.detail[:200])
        return rec
    if rv.verdict == 'sat':
        vals = solve.get_model(rv.text, argnames, rv.solver, max(60, timeout))
        if vals is None:
            rec.update(verdict='inconclusive', reason='sat but no model could be extracted'); return rec
        rec['verdict'] = 'counterexample'
        rec['model'] = {nm: vals[str(v)] for nm, ty, v in se['names']}
        rec['model_args'] = [decode_arg(nm, ty, vals, se) for nm, ty, v in se['names'] if not nm.startswith('__')]
        # which panic site fires (evaluate guards in-process with z3 on the concrete model)
        try:
            s = z3.Solver(); s.set('timeout', 20000)
            for c in base: s.add(c)
            for nm, ty, v in se['names']:
                s.add(v == (z3.BoolVal(vals[str(v)]) if ty == 'bool' else vals[str(v)]))
            if s.check() == z3.sat:
                m = s.model()
                rec['sites'] = [(site, msg) for g, site, msg in ctx.panics if z3.is_true(m.eval(g, model_completion=True))][:5]
        except Exception:
            pass
        return rec
    rec.update(verdict='inconclusive', reason='violation query: %s %s' % (rv.verdict, rv.detail[:300]))
    return rec

ARG_DECODERS = []
def decode_arg(nm, ty, vals, se):
    for d in ARG_DECODERS:
        r = d(nm, ty, vals, se)
        if r is not None: return r
    v = vals[('a_' + nm)]
    if isinstance(v, bool): return 'true' if v else 'false'
    return str(v)

def validate_encoding(prog, ob, se, base, viol, wit, points, checks_on):
    """push concrete argument tuples through the native build and through the encoding (arguments fixed); both must agree"""
    names = [(nm, ty, v) for nm, ty, v in se['names']]
    over_approx = any('/uf' in a or '/bound' in a for a in ob.abstractions)
    def sarg(x):
        if x is True: return 'true'
        if x is False: return 'false'
        if isinstance(x, (bytes, bytearray)): return x.hex() if x else '-'
        return str(x)
    calls = [(ob.fn, [sarg(x) for x in pt]) for pt in points]
    names = [(nm, ty, v) for nm, ty, v in names if not nm.startswith('__')]
    native = prog.scratch.native(not checks_on, calls)
    s = z3.Solver(); s.set('timeout', 30000)
    for c in base: s.add(c)
    dis = []; agree = 0; undecided = 0
    for pt, nat in zip(points, native):
        s.push()
        for (nm, ty, v), x in zip(names, pt):
            if ty.startswith('strbuf:'):
                for i, byte in enumerate(x): s.add(z3.Int('a_%s_b%d' % (nm, i)) == byte)
            else: s.add(v == (z3.BoolVal(x) if ty == 'bool' else x))
        # restricted domains: a point outside the slice is skipped
        if s.check() != z3.sat:
            s.pop(); continue
        s.push(); s.add(viol); r1 = s.check(); s.pop()
        s.push(); s.add(wit); r2 = s.check(); s.pop()
        s.pop()
        if z3.unknown in (r1, r2): undecided += 1; continue
        # in terms of (panics?, returns?)
        if ob.kind == 'holds': enc = ('PANICKED' if r1 == z3.sat else '') + ('RETURNED' if r2 == z3.sat else '')
        else: enc = ('RETURNED' if r1 == z3.sat else '') + ('PANICKED' if r2 == z3.sat else '')
        if enc == '': enc = 'ASSUME'
        natk = nat.split(' ')[0]
        if over_approx:
            # uninterpreted oracle/callee functions admit more behaviours than the real ones: the native outcome must be among them
            if natk == 'ASSUME' or natk in enc: agree += 1
            else: dis.append({'args': [str(x) for x in pt], 'native': nat[:120], 'encoding allows': enc})
        elif enc == natk: agree += 1
        else: dis.append({'args': [str(x) for x in pt], 'native': nat[:120], 'encoding': enc})
    return {'points': len(points), 'agree': agree, 'undecided': undecided, 'disagreements': dis[:5]}

def gen_points(prog, ob, n, seed):
    f = prog.fn(ob.fn)
    rng = random.Random(seed * 7919 + zlib.crc32((ob.fn + (ob.note or '')).encode()) % 100000)
    cols = []
    for p in f.params:
        ty = f.locals[p]; nm = f.debug.get(p, p)
        if ty == 'bool': cols.append([True, False]); continue
        if ty in ('&str', '&[u8]'):
            L = ob.strlen if ob.strlen is not None else 20
            bd = ob.dom.get(nm + '#bytes')
            if bd is not None:
                # per-byte domains: interval ends, characters the readers compare against, random members
                hot = b'\n,.:/<>+-0159JMAZaz \x00;'
                col = []
                for _ in range(max(n, 8)):
                    bs = bytearray()
                    for i in range(L):
                        lo, hi = bd.get(i, (0, 255))
                        if lo == hi: bs.append(lo); continue
                        c = [lo, hi, rng.randint(lo, hi), rng.randint(lo, hi)] + [h for h in hot if lo <= h <= hi]
                        bs.append(rng.choice(c))
                    col.append(bytes(bs))
                cols.append(col); continue
            cols.append(string_corpus(L, rng)); continue
        if ty not in INT_TYPES: return []
        lo, hi = ty_range(ty)
        if nm in ob.dom: lo, hi = max(lo, ob.dom[nm][0]), min(hi, ob.dom[nm][1])
        cols.append(boundary_values(ty, lo, hi, rng))
    pts = []
    for _ in range(n):
        pts.append([rng.choice(c) for c in cols])
    return pts

STRING_SEEDS = ["2022-05-02T15:30:20Z", "2022-05-02T15:30:20.5Z", "2022-05-02T15:30:20.123456789+01:00", "2022-05-02T15:30:20-23:59", "0001-01-01T00:00:00Z",
                "9999-12-31T23:59:59.999999999999Z", "2022-13-02T15:30:20Z", "2022-02-30T15:30:20Z", "2022-05-02T24:30:20Z", "2022-05-02t15:30:20z", "-001-05-02T15:30:20Z",
                "2022-05-02T15:30:20+24:00", "2022-05-02T15:30:20.Z", "2022-05-02T15:30:20.12345678901234567890Z", "2022x05x02x15x30x20Z", "2022-05-02T15:30:20ZZ",
                "2022-05-02T15:30:20\u00e9Z", "\u00e9022-05-02T15:30:20Z", "2022-05-02T15:30:2\u00e9", "EST5EDT,M3.2.0,M11.1.0", "<+03>-3", "CET-1CEST,M3.5.0,M10.5.0/3", "A1", "UTC0", "J60", ""]
def string_corpus(L, rng):
    out = []
    for s in STRING_SEEDS:
        b = s.encode('utf8')
        if len(b) < L: b = b + (b'0' * (L - len(b)))
        b = b[:L]
        try: b.decode('utf8')
        except UnicodeDecodeError: continue
        if any(x >= 0xE0 for x in b): continue
        out.append(b)
        # one-byte mutation keeping ASCII
        if L:
            m = bytearray(b); i = rng.randrange(L)
            if m[i] < 128 and (i + 1 >= L or m[i + 1] < 128 or True):
                m[i] = rng.choice(b'0123456789Z+-.:T ')
                try:
                    bytes(m).decode('utf8'); out.append(bytes(m))
                except UnicodeDecodeError: pass
    return out or [b'0' * L]
