"""String results of the formatter as a free term algebra (C11, reduced scope): a String is a choice among terms
  ('lit', bytes) | ('fmt', template bytes of the compiled format_args!, argument values).
Two Strings are taken as equal when they are the same constructor with equal arguments (sufficient, not necessary:
a mismatch that is only syntactic fails native replay and ends as inconclusive, never as a violation).
That the leaf renderers print decimal digits correctly is std's business and outside the claim."""
import re
import z3
from .sym import (IV, BV, Agg, En, Ref, Opaque, StrLit, StrSel, _str_alts, ArrIter, T, F, mk_int, mk_bool, bv_of, zand, zor, znot, Inconclusive)
from . import oblig

class StrT:
    is_strterm = True
    __slots__ = ('alts',)
    def __init__(s, alts): s.alts = alts            # [(cond, term)]
    def __repr__(s): return 'StrT(%d alts)' % len(s.alts)
    def merge_with(s, c, other):
        if isinstance(other, StrT):
            if c.c is True: return s
            if c.c is False: return other
            return StrT([(zand(c.t, g), t) for g, t in s.alts] + [(zand(znot(c.t), g), t) for g, t in other.alts])
        return None
class ArgV:
    __slots__ = ('v',)
    def __init__(s, v): s.v = v
class FmtArgs:
    __slots__ = ('tmpl', 'args')
    def __init__(s, tmpl, args): s.tmpl = tmpl; s.args = args

def lit(b): return StrT([(T, ('lit', b))])

def from_strlike(v):
    if isinstance(v, StrLit): return lit(v.b)
    if isinstance(v, StrSel): return StrT([(c, ('lit', b)) for c, b in v.alts])
    if isinstance(v, StrT): return v
    return None

def arg_eq(ex, a, b):
    if isinstance(a, IV) and isinstance(b, IV): return a.t == b.t
    if isinstance(a, BV) and isinstance(b, BV): return a.t == b.t
    sa, sb = from_strlike(a), from_strlike(b)
    if sa is not None and sb is not None: return str_eq(ex, sa, sb)
    raise Inconclusive('format argument comparison of %r and %r' % (a, b))

def term_eq(ex, ta, tb):
    if ta[0] != tb[0]: return F
    if ta[0] == 'lit': return T if ta[1] == tb[1] else F
    if ta[1] != tb[1] or len(ta[2]) != len(tb[2]): return F
    return zand(*[arg_eq(ex, x, y) for x, y in zip(ta[2], tb[2])])

def str_eq(ex, a, b):
    return zor(*[zand(ca, cb, term_eq(ex, ta, tb)) for ca, ta in a.alts for cb, tb in b.alts])

def model(ex, c, args, guard, site):
    cs = ex.strip_generics(c)
    ctx = ex.ctx
    if cs.endswith('::to_string') or cs.endswith('ToString>::to_string') or cs.endswith('::to_owned') or cs in ('<String as From<&str>>::from', 'String::from'):
        v = ex.deref(args[0])
        s = from_strlike(v)
        if s is not None:
            ctx.models_used.add('to_string on a string literal/table entry -> literal term'); return s, T
        if isinstance(v, IV):
            ctx.models_used.add('integer to_string -> term dec(value)'); return StrT([(T, ('fmt', b'<int::to_string>', (v,)))]), T
        return None
    if re.match(r'^(core|std)::fmt::rt::Argument::new_display$', cs) or re.match(r'^(core|std)::fmt::rt::Argument::from_usize$', cs) or cs in ('Argument::new_display', 'Argument::from_usize'):
        return ArgV(ex.deref(args[0])), T
    if re.match(r'^(?:std::fmt::|core::fmt::)?Arguments::new$', cs):
        tmpl = ex.deref(args[0]); arr = ex.deref(args[1])
        if not isinstance(tmpl, StrLit) or not isinstance(arr, Agg): raise Inconclusive('Arguments::new with %r' % (tmpl,))
        vals = []
        for a in arr.f:
            a = ex.deref(a)
            if not isinstance(a, ArgV): raise Inconclusive('format argument %r' % (a,))
            vals.append(a.v)
        return FmtArgs(tmpl.b, tuple(vals)), T
    if re.match(r'^(?:std::fmt::|core::fmt::)?Arguments::(from_str|new_const)$', cs):
        v = ex.deref(args[0])
        if isinstance(v, StrLit): return FmtArgs(None, (v,)), T
        if isinstance(v, Agg) and len(v.f) == 1 and isinstance(ex.deref(v.f[0]), StrLit): return FmtArgs(None, (ex.deref(v.f[0]),)), T
        return None
    if cs in ('format', 'std::fmt::format', 'alloc::fmt::format'):
        fa = ex.deref(args[0])
        if isinstance(fa, FmtArgs):
            ctx.models_used.add('format!(..) -> term fmt(template, arguments)')
            if fa.tmpl is None: return lit(fa.args[0].b), T
            return StrT([(T, ('fmt', fa.tmpl, fa.args))]), T
        return None
    if cs.startswith('must_use') or cs.startswith('std::hint::must_use'):
        return args[0], T
    m = re.match(r'^<String as PartialEq(?:<String>)?>::(eq|ne)$', cs)
    if m:
        a, b = from_strlike(ex.deref(args[0])), from_strlike(ex.deref(args[1]))
        if a is None or b is None: return None
        e = str_eq(ex, a, b)
        ctx.models_used.add('String == String on terms (same constructor, equal arguments)')
        return bv_of(e if m.group(1) == 'eq' else znot(e)), T
    if re.match(r'^<\[.*; \d+\] as IntoIterator>::into_iter$', cs):
        arr = ex.deref(args[0])
        if isinstance(arr, Agg): return ArrIter(arr, 0, byref=False), T
        return None
    if re.match(r'^<std::array::IntoIter<.*> as Iterator>::nth$', cs):
        r = args[0]; it = ex.deref(r); k = args[1]
        if not isinstance(it, ArrIter): return None
        elems = it.arr.f[it.idx:]
        kc = k.const()
        if kc is not None:
            if kc < len(elems): return En(mk_int(1, 'isize'), {1: [elems[kc]]}, 'Option'), T
            return En(mk_int(0, 'isize'), {0: []}, 'Option'), T
        if all(isinstance(e, StrLit) for e in elems):
            lo = max(k.lo, 0); hi = min(k.hi, len(elems) - 1)
            sel = StrSel([(k.t == i, elems[i].b) for i in range(lo, hi + 1)])
            inb = bv_of(zand(k.t >= 0, k.t < len(elems))) if (k.lo < 0 or k.hi >= len(elems)) else mk_bool(True)
            disc = mk_int(1, 'isize') if inb.c is True else IV(z3.If(inb.t, 1, 0), 'isize', 0, 1)
            ctx.models_used.add('const table .into_iter().nth(k) -> selection of its literals')
            return En(disc, {0: [], 1: [sel]}, 'Option'), T
        raise Inconclusive('array nth with symbolic index over non-literal elements')
    return None

class DecSuf:
    """&str that is the suffix, from byte `start`, of the decimal rendering of integer v (`v.to_string()[start..]`)"""
    is_strlike = True
    __slots__ = ('v', 'start', 'len')
    def __init__(s, v, start, ln): s.v = v; s.start = start; s.len = ln

def dec_of(st):
    """the integer whose to_string() this String term is, or None"""
    if isinstance(st, StrT) and len(st.alts) == 1 and z3.is_true(st.alts[0][0]) and st.alts[0][1][0] == 'fmt' and st.alts[0][1][1] == b'<int::to_string>':
        return st.alts[0][1][2][0]
    return None

def dec_len(v):
    """number of bytes of v.to_string(): one per decimal digit of |v|, plus the sign"""
    def n(x): return len(str(x))
    t = 1 + z3.If(v.t < 0, 1, 0)
    for k in range(1, 20):
        if max(abs(v.lo), abs(v.hi)) >= 10 ** k: t = t + z3.If(z3.Or(v.t >= 10 ** k, v.t <= -(10 ** k)), 1, 0)
    cands = [n(v.lo), n(v.hi)] + ([1] if v.lo <= 0 <= v.hi else [])
    return IV(z3.simplify(t), 'usize', min(cands), max(cands))

def dec_model(ex, c, args, guard, site):
    """String::len / Index<RangeFrom> / parse::<int> on the decimal rendering of an integer (the `yy` digit surgery)"""
    from .sym import fdiv
    from .models import en2
    cs = ex.strip_generics(c); ctx = ex.ctx
    if cs == 'String::len':
        v = dec_of(ex.deref(args[0]))
        if v is None: return None
        ctx.models_used.add('String::len of int::to_string -> digit count + sign'); return dec_len(v), T
    if re.match(r'^<String as Index<(?:std::ops::)?RangeFrom<usize>>>::index$', cs):
        v = dec_of(ex.deref(args[0]))
        if v is None: return None
        ln = dec_len(v); a = ex.deref(args[1]).f[0]
        okc = zand(a.t >= 0, a.t <= ln.t)            # all bytes ASCII: no char-boundary panic
        if not (a.lo >= 0 and a.hi <= ln.lo): ctx.panics.append((zand(guard, znot(okc)), site, 'str slice start out of range'))
        ctx.models_used.add('int::to_string()[a..] -> decimal suffix'); return DecSuf(v, a, ln), okc
    m = re.match(r'^core::str::<impl str>::parse::<(i32|i64|u32|u64)>$', c)
    if m:
        s = ex.deref(args[0])
        if not isinstance(s, DecSuf): return None
        k = z3.simplify(s.len.t - s.start.t)
        if not z3.is_int_value(k): raise Inconclusive('parse of a decimal suffix of symbolic length')
        k = k.as_long(); v = s.v; ty = m.group(1)
        if k == 0: return en2(mk_bool(True), [mk_int(0, ty)], [Opaque('ParseIntError')], 'Result'), T
        neg = z3.If(v.t < 0, 1, 0)
        av = IV(z3.If(v.t < 0, -v.t, v.t), 'i128', 0 if v.lo <= 0 <= v.hi else min(abs(v.lo), abs(v.hi)), max(abs(v.lo), abs(v.hi)))
        q, r, _, _ = fdiv(ctx, av, 10 ** k)
        digits_only = s.start.t >= neg               # otherwise the suffix is the whole string "-ddd"
        val = z3.If(digits_only, r, v.t)
        lo_t, hi_t = {'i32': (-2**31, 2**31 - 1), 'i64': (-2**63, 2**63 - 1), 'u32': (0, 2**32 - 1), 'u64': (0, 2**64 - 1)}[ty]
        notok = bv_of(z3.Or(val < lo_t, val > hi_t))
        ctx.models_used.add('parse::<%s> of a decimal suffix -> |v| mod 10^k (whole string: v)' % ty)
        return en2(notok, [IV(val, ty, max(lo_t, min(0, v.lo)), min(hi_t, max(10 ** k - 1, v.hi)))], [Opaque('ParseIntError')], 'Result'), T
    return None

def exec_hook(ex, ob):
    if ob.opts.get('fmt_terms'):
        ex.extra_models.insert(0, model)
        ex.extra_models.insert(0, dec_model)
oblig.EXEC_HOOKS.append(exec_hook)
