"""Scratch crate construction from /repo's working tree, MIR dumps, native replay binary, obligation runner."""
import os, re, sys, json, shutil, subprocess, tempfile, time, random, atexit, threading
from concurrent.futures import ThreadPoolExecutor
import z3
from . import mir as mirmod
from .sym import (Exec, Ctx, IV, BV, Agg, En, Ref, Opaque, Inconclusive, MergeFail, ty_range, INT_TYPES, T, F, zand, zor, znot, mk_int)
from .models import Abstraction
from . import solve

REPO = os.environ.get('VERIF_REPO', '/repo')
VERIF = os.path.dirname(os.path.dirname(os.path.abspath(__file__)))
NIGHTLY = 'nightly'

CARGO_TOML = """[package]
name = "astrolabe"
version = "0.0.0"
edition = "2021"
[lib]
path = "src/lib.rs"
[[bin]]
name = "replay"
path = "src/bin/replay.rs"
[profile.dev]
debug-assertions = false
overflow-checks = true
opt-level = 0
debug = false
[profile.release]
debug-assertions = false
overflow-checks = false
opt-level = 1
[workspace]
"""

REPLAY_RS = '''// generated: native replay of property functions (one call per stdin line)
use std::io::BufRead;
fn p<T: std::str::FromStr>(s: &str) -> T where T::Err: std::fmt::Debug { s.parse::<T>().expect("arg") }
fn hexb(s: &str) -> Vec<u8> { if s == "-" { return vec![]; } (0..s.len() / 2).map(|i| u8::from_str_radix(&s[2 * i..2 * i + 2], 16).unwrap()).collect() }
fn hexs(s: &str) -> String { String::from_utf8(hexb(s)).expect("utf8") }
#[allow(dead_code)]
fn set(s: &str) -> std::collections::HashSet<u8> { if s == "-" { return Default::default(); } s.split(',').map(|x| x.parse::<u8>().unwrap()).collect() }
fn dispatch(f: &str, a: &[String]) -> Result<(), ()> {
    match f {
%s
        _ => return Err(()),
    }
    Ok(())
}
fn main() {
    std::panic::set_hook(Box::new(|_| {}));
    let stdin = std::io::stdin();
    for line in stdin.lock().lines() {
        let line = line.unwrap();
        let toks: Vec<String> = line.split_whitespace().map(|s| s.to_string()).collect();
        if toks.is_empty() { continue; }
        let f = toks[0].clone();
        if f == "CASETABLE" {
            // std's own case mapping of every two-byte UTF-8 character that is not mapped to itself: cp:upper-hex:lower-hex;
            let hx = |x: &str| x.bytes().map(|b| format!("{:02x}", b)).collect::<String>();
            let mut out = String::new();
            for cp in 0x80u32..0x800 {
                let c = char::from_u32(cp).unwrap();
                let u: String = c.to_uppercase().collect(); let l: String = c.to_lowercase().collect(); let s = c.to_string();
                if u != s || l != s { out.push_str(&format!("{}:{}:{};", cp, hx(&u), hx(&l))); }
            }
            println!("{}", out);
            continue;
        }
        let a: Vec<String> = toks[1..].to_vec();
        let r = std::panic::catch_unwind(move || dispatch(&f, &a));
        match r {
            Ok(Ok(())) => println!("RETURNED"),
            Ok(Err(())) => println!("BADCALL"),
            Err(e) => {
                if e.downcast_ref::<astrolabe::verif_props::common::AssumeFailed>().is_some() { println!("ASSUME"); }
                else if let Some(s) = e.downcast_ref::<String>() { println!("PANICKED {}", s.replace('\\n', " ")); }
                else if let Some(s) = e.downcast_ref::<&str>() { println!("PANICKED {}", s.replace('\\n', " ")); }
                else { println!("PANICKED ?"); }
            }
        }
    }
}
'''

class BuildError(Exception):
    pass

def log(*a):
    print(*a, file=sys.stderr, flush=True)

class Scratch:
    """fresh copy of /repo/src (working tree) + injected property functions; removed on exit"""
    def __init__(self, cfg_test=False, props=None):
        self.dir = tempfile.mkdtemp(prefix='verif_scratch_')
        atexit.register(self.cleanup)
        self.cfg_test = cfg_test
        self.props = props            # list of props file basenames to inject (None = all)
        self.sigs = {}
        self._mir = {}
        self._bin = {}
        self._lock = threading.Lock()
        self.build()

    def cleanup(self):
        shutil.rmtree(self.dir, ignore_errors=True)

    def build(self):
        src = os.path.join(self.dir, 'src')
        shutil.copytree(os.path.join(REPO, 'src'), src)
        open(os.path.join(self.dir, 'Cargo.toml'), 'w').write(CARGO_TOML)
        lock = os.path.join(REPO, 'Cargo.lock')
        pdir = os.path.join(VERIF, 'props')
        vp = os.path.join(src, 'verif_props'); os.makedirs(vp)
        mods = []
        for fn in sorted(os.listdir(pdir)):
            if not fn.endswith('.rs'): continue
            if fn.startswith('append_'):
                # append-only module for private-field access: append_<file>__<modname>.rs -> src/<path>.rs
                m = re.match(r'^append_(.+)__(\w+)\.rs$', fn)
                target = os.path.join(src, m.group(1).replace('-', '/') + '.rs')
                if not os.path.exists(target): raise BuildError('append target missing: ' + target)
                if self.props is not None and fn not in self.props: continue
                body = open(os.path.join(pdir, fn)).read()
                mg = re.search(r'requires: cfg\((\w+)\)', '\n'.join(body.split('\n')[:4]))
                gate = '#[cfg(%s)]\n' % mg.group(1) if mg else ''
                with open(target, 'a') as f:
                    f.write('\n%s#[allow(dead_code, unused_imports, unused_variables, clippy::all)]\npub mod %s {\n%s\n}\n' % (gate, m.group(2), body))
                self._collect_sigs(body, 'APPEND:' + m.group(1).replace('-', '::') + '::' + m.group(2))
                continue
            if self.props is not None and fn != 'common.rs' and fn not in self.props: continue
            shutil.copy(os.path.join(pdir, fn), os.path.join(vp, fn))
            mods.append(fn[:-3])
            self._collect_sigs(open(os.path.join(pdir, fn)).read(), 'verif_props::' + fn[:-3])
        open(os.path.join(vp, 'mod.rs'), 'w').write('#![allow(dead_code, unused_imports, unused_variables, clippy::all)]\n' + ''.join('pub mod %s;\n' % m for m in mods))
        with open(os.path.join(src, 'lib.rs'), 'a') as f:
            f.write('\n#[doc(hidden)]\n#[allow(missing_docs, missing_debug_implementations)]\npub mod verif_props;\n')
        # make modules holding appended property modules reachable from the replay binary
        libtxt = open(os.path.join(src, 'lib.rs')).read()
        for path in sorted({pth[7:].split('::')[0] for pth, _ in getattr(self, 'prop_texts', []) if pth.startswith('APPEND:')}):
            libtxt = re.sub(r'^mod %s;' % path, '#[doc(hidden)] #[allow(missing_docs, missing_debug_implementations)] pub mod %s;' % path, libtxt, flags=re.M)
        for pth, _ in getattr(self, 'prop_texts', []):
            if not pth.startswith('APPEND:'): continue
            parts = pth[7:].split('::')
            if len(parts) >= 3:      # a::b::<appended module>: make `b` reachable inside src/a/mod.rs
                modrs = os.path.join(src, parts[0], 'mod.rs')
                if os.path.exists(modrs):
                    t = open(modrs).read()
                    t = re.sub(r'^(?:pub\([\w]+\) )?mod %s;' % parts[1], 'pub mod %s;' % parts[1], t, flags=re.M)
                    open(modrs, 'w').write(t)
        libtxt = libtxt.replace('#![forbid(unsafe_code)]', '').replace('#![warn(missing_docs)]', '').replace('#![warn(missing_debug_implementations)]', '')
        open(os.path.join(src, 'lib.rs'), 'w').write(libtxt)
        os.makedirs(os.path.join(self.dir, 'src', 'bin'), exist_ok=True)
        open(os.path.join(self.dir, 'src', 'bin', 'replay.rs'), 'w').write('fn main() {}\n')

    def _collect_sigs(self, text, path):
        self.prop_texts = getattr(self, 'prop_texts', [])
        self.prop_texts.append((path, text))

    def finish_replay(self, prog):
        """generate src/bin/replay.rs from the property functions found in the MIR (so macro-generated ones are included)"""
        if getattr(self, '_replay_done', False): return
        sigs = {}
        for n, f in prog.fns.items():
            last = n.split('::')[-1]
            if '<impl' in n or not re.match(r'^(c\d\d|oracle|probe|kf)_\w+$', last): continue
            path = None
            for pth, text in self.prop_texts:
                if re.search(r'\bfn\s+%s\b' % re.escape(last), text): path = pth; break
            if path is None:      # macro-generated: the name is an argument of a macro invocation (comments ignored)
                for pth, text in self.prop_texts:
                    code = '\n'.join(l for l in text.split('\n') if not l.lstrip().startswith('//'))
                    if re.search(r'\b%s\b' % re.escape(last), code): path = pth; break
            if path is None: continue
            ps = []; ok = True
            for p_ in f.params:
                ty = f.locals[p_]
                if ty in INT_TYPES or ty in ('bool', '&str', '&[u8]'): ps.append((f.debug.get(p_, p_), ty))
                elif re.match(r'^&(std::collections::)?HashSet<u8>$', ty): ps.append((f.debug.get(p_, p_), '&HashSet'))
                else: ok = False
            if ok and f.ret in ('()', 'bool'): sigs[last] = {'params': ps, 'ret': f.ret, 'path': path}
        self.sigs = sigs
        self._write_replay()
        self._replay_done = True

    def _write_replay(self):
        arms = []
        for name, s in sorted(self.sigs.items()):
            path = s['path']
            if path.startswith('APPEND:'): path = path[7:]
            conv = []
            for i, (pn, pt) in enumerate(s['params']):
                if pt in INT_TYPES and pt != 'char': conv.append('p::<%s>(&a[%d])' % (pt, i))
                elif pt == 'char': conv.append('char::from_u32(p::<u32>(&a[%d])).unwrap()' % i)
                elif pt == 'bool': conv.append('(a[%d] == "true" || a[%d] == "1")' % (i, i))
                elif pt == '&str': conv.append('&hexs(&a[%d])' % i)
                elif pt == '&[u8]': conv.append('&hexb(&a[%d])' % i)
                elif pt == '&HashSet': conv.append('&set(&a[%d])' % i)
            call = 'astrolabe::%s::%s(%s)' % (path, name, ', '.join(conv))
            if s['ret'] == 'bool': call = 'let r = %s; if !r { return Err(()) }' % call
            else: call = call + ';'
            arms.append('        "%s" => { if a.len() != %d { return Err(()) } %s }' % (name, len(s['params']), call))
        code = REPLAY_RS % '\n'.join(arms)
        os.makedirs(os.path.join(self.dir, 'src', 'bin'), exist_ok=True)
        open(os.path.join(self.dir, 'src', 'bin', 'replay.rs'), 'w').write(code)

    def _env(self):
        env = dict(os.environ)
        env['CARGO_NET_OFFLINE'] = 'true'
        if self.cfg_test: env['RUSTFLAGS'] = (env.get('RUSTFLAGS', '') + ' --cfg test').strip()
        env.pop('RUSTUP_TOOLCHAIN', None)
        return env

    def mir(self, checks_on):
        """MIR text of the scratch crate; checks_on: -C overflow-checks=on (dev semantics) or off (release semantics)"""
        key = bool(checks_on)
        with self._lock:
            if key in self._mir: return self._mir[key]
        tdir = os.path.join(self.dir, 'target_mir_%s' % ('on' if key else 'off'))
        cmd = ['cargo', '+' + NIGHTLY, 'rustc', '--offline', '--lib', '--target-dir', tdir, '--', '-Zunpretty=mir',
               '-C', 'debug-assertions=off', '-C', 'overflow-checks=%s' % ('on' if key else 'off'), '-Awarnings']
        t0 = time.time()
        p = subprocess.run(cmd, cwd=self.dir, env=self._env(), stdout=subprocess.PIPE, stderr=subprocess.PIPE, text=True)
        if p.returncode != 0 or 'fn ' not in p.stdout:
            raise BuildError('MIR dump failed:\n' + p.stderr[-3000:])
        shutil.rmtree(tdir, ignore_errors=True)
        with self._lock:
            self._mir[key] = p.stdout
        log('[scratch] MIR overflow-checks=%s: %d lines in %.1fs' % ('on' if key else 'off', p.stdout.count('\n'), time.time() - t0))
        return p.stdout

    def replay_bin(self, release):
        key = bool(release)
        if not getattr(self, '_replay_done', False): raise BuildError('finish_replay(prog) must run before the replay binary is built')
        with self._lock:
            if key in self._bin: return self._bin[key]
        tdir = os.path.join(self.dir, 'target_%s' % ('rel' if key else 'dev'))
        cmd = ['cargo', 'build', '--offline', '--bin', 'replay', '--target-dir', tdir] + (['--release'] if key else [])
        t0 = time.time()
        env = self._env(); env['RUSTFLAGS'] = (env.get('RUSTFLAGS', '') + ' -Awarnings').strip()
        p = subprocess.run(cmd, cwd=self.dir, env=env, stdout=subprocess.PIPE, stderr=subprocess.PIPE, text=True)
        if p.returncode != 0:
            raise BuildError('replay build failed:\n' + p.stderr[-4000:])
        path = os.path.join(tdir, 'release' if key else 'debug', 'replay')
        with self._lock:
            self._bin[key] = path
        log('[scratch] replay binary (%s) built in %.1fs' % ('release' if key else 'dev', time.time() - t0))
        return path

    def case_table(self):
        """{codepoint: (uppercase bytes, lowercase bytes)} for the two-byte characters std does not map to themselves, from the native build"""
        if getattr(self, '_case_table', None) is None:
            line = self.native(False, [('CASETABLE', [])])[0]
            t = {}
            for ent in line.strip().split(';'):
                if not ent: continue
                cp, u, l = ent.split(':')
                t[int(cp)] = (bytes.fromhex(u), bytes.fromhex(l))
            self._case_table = t
        return self._case_table

    def native(self, release, calls):
        """calls: list of (fn, [arg strings]) -> list of result lines"""
        if not calls: return []
        path = self.replay_bin(release)
        inp = ''.join('%s %s\n' % (f, ' '.join(a)) for f, a in calls)
        p = subprocess.run([path], input=inp, stdout=subprocess.PIPE, stderr=subprocess.PIPE, text=True, timeout=600)
        lines = p.stdout.strip().split('\n') if p.stdout.strip() else []
        if len(lines) != len(calls):
            raise BuildError('replay produced %d lines for %d calls (rc=%s): %s' % (len(lines), len(calls), p.returncode, p.stderr[-500:]))
        return lines

class Program:
    """parsed MIR of one profile"""
    def __init__(self, scratch, checks_on):
        self.scratch = scratch; self.checks_on = checks_on
        text = scratch.mir(checks_on)
        self.fns, self.consts = mirmod.parse_mir(text)
        self.impl = mirmod.build_impl_index(self.fns, scratch.dir)
        self.enums = mirmod.parse_enums(os.path.join(scratch.dir, 'src'))
        self.by_last = {}
        for n in self.fns: self.by_last.setdefault(n.split('::')[-1], []).append(n)
    def fn(self, last):
        c = [n for n in self.by_last.get(last, []) if '<impl' not in n]
        if len(c) != 1: raise Inconclusive('property function %s: %d candidates' % (last, len(c)))
        return self.fns[c[0]]

def arg_str(v):
    if isinstance(v, bool): return 'true' if v else 'false'
    return str(v)
