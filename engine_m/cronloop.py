"""C17: CronSchedule::next decided by a loop-invariant cut of its real CFG (prologue / one iteration from an arbitrary
loop state / epilogue). The executor starts at chosen blocks of the MIR of `next` and stops at CFG cuts; the
schedule's five sets are symbolic (one Boolean per field value), the DateTime getters the loop reads are
uninterpreted functions shared with the oracle (their calendar meaning is C01/C02/C10), and the jump arithmetic
(add_*/clear_until_*) is executed from its own MIR (calendar kernels through their contracts)."""
import os, re, time, json, traceback, zlib
import z3
from .sym import (Exec, Ctx, IV, BV, Agg, En, Ref, Opaque, Inconclusive, MergeFail, T, F, zand, zor, znot, mk_int, mk_bool, bv_of, ty_range)
from .models import Abstraction, cell
from . import solve, oblig

NPD = 86_400_000_000_000
MIN_NS = 60_000_000_000

class SetV:
    """a set of u8 field values: one Boolean per value 0..63"""
    def __init__(self, name, bits=None):
        self.name = name
        self.bits = bits or [z3.Bool('%s_%d' % (name, i)) for i in range(64)]
    def member(self, x):
        lo = max(x.lo, 0); hi = min(x.hi, 63)
        if hi < lo: return F
        if lo == hi: return zand(x.t == lo, self.bits[lo]) if x.const() is None else self.bits[lo]
        return zor(*[zand(x.t == i, self.bits[i]) for i in range(lo, hi + 1)])
    def size(self):
        return IV(z3.Sum([z3.If(b, 1, 0) for b in self.bits]), 'usize', 0, 64)
    def merge_with(self, c, other):
        return self if other is self else None

def set_model(ex, c, args, guard, site):
    cs = ex.strip_generics(c)
    if cs in ('HashSet::contains', 'std::collections::HashSet::contains'):
        st = ex.deref(args[0]); x = ex.deref(args[1])
        if isinstance(st, SetV): return bv_of(st.member(x)), T
    if cs in ('HashSet::len', 'std::collections::HashSet::len'):
        st = ex.deref(args[0])
        if isinstance(st, SetV): return st.size(), T
    if re.match(r'^<(std::collections::)?HashSet<u8> as Clone>::clone$', cs):
        st = ex.deref(args[0])
        if isinstance(st, SetV): return st, T
    return None

FIELD_RANGES = {'minutes': (0, 59), 'hours': (0, 23), 'dom': (1, 31), 'months': (1, 12), 'dow': (0, 6)}
ORDER = ['minutes', 'hours', 'dom', 'months', 'dow']

def make_sets():
    sets = {k: SetV('set_' + k) for k in ORDER}
    cons = []
    for k, (lo, hi) in FIELD_RANGES.items():
        s = sets[k]
        cons += [z3.Not(s.bits[i]) for i in range(64) if i < lo or i > hi]      # representation invariant of a parsed schedule:
        cons.append(z3.Or(*[s.bits[i] for i in range(lo, hi + 1)]))              # values inside the field range, non-empty
    return sets, cons

GETTERS = {'month': ('u32', 1, 12), 'day': ('u32', 1, 31), 'weekday': ('u8', 0, 6), 'hour': ('u32', 0, 23), 'minute': ('u32', 0, 59)}

def getter_abstraction(meth):
    ty, lo, hi = GETTERS[meth]
    def flatten(ex, args):
        v = ex.deref(args[0])
        off = v.f[2]
        if not (isinstance(off, En) and off.disc.const() == 0 and off.v[0][0].const() == 0):
            raise Inconclusive('getter abstraction needs offset Fixed(0)')
        return [v.f[0], v.f[1]]
    return Abstraction(meth, None, [('v', ty, lo, hi)], flatten=flatten, only_if=lambda name: 'src/datetime.rs' in name, always=True)

def install(ex, realistic=False):
    ex.extra_models.append(set_model)
    names = ['days_to_date', 'date_to_days', 'nanos_to_days_nanos', 'days_nanos_to_nanos', 'nanos_to_time']
    if not realistic:
        # proof mode: getters and the closed-form day count are uninterpreted (shared by library side and oracle)
        for m in GETTERS: ex.abstractions[m] = getter_abstraction(m)
        names.append('spec_rd/uf')
    for a in names:
        ab = oblig.ABSTRACTION_TABLE[a](ex); ex.abstractions[ab.fn_last] = ab

def dt_value(d, n):
    return Agg([d, n, En(mk_int(0, 'isize'), {0: [mk_int(0, 'i32')]}, 'Offset')], 'struct:DateTime')

def find_next(prog):
    c = [n for n in prog.fns if n.endswith('::next') and 'src/cron.rs' in n]
    if len(c) != 1: raise Inconclusive('CronSchedule::next not found uniquely: %s' % c)
    return prog.fns[c[0]]

def loop_shape(ex, f):
    """header block, the local holding the loop variable `next`, the two restriction flags, back-edge sources -- read off the CFG"""
    li = ex.loops(f)
    if len(li['bodies']) != 1: raise Inconclusive('expected exactly one loop in CronSchedule::next, found %d' % len(li['bodies']))
    header = next(iter(li['bodies']))
    succ = ex.successors(f)
    back = sorted([b for b in li['bodies'][header] if header in succ.get(b, [])], key=lambda b: int(b[2:]))
    # locals by debug name
    names = {v: k for k, v in f.debug.items()}
    need = ['next', 'dom_restricted', 'dow_restricted', 'self']
    for nme in need:
        if nme not in names: raise Inconclusive('local %s not found in CronSchedule::next' % nme)
    return header, back, names

def sym_dt(prefix, lo_day, hi_day):
    d = z3.Int(prefix + '_d'); n = z3.Int(prefix + '_n')
    return IV(d, 'i32', lo_day, hi_day), IV(n, 'u64', 0, NPD - 1), [d >= lo_day, d <= hi_day, n >= 0, n < NPD]

def call_spec(ex, prog, name, args):
    f = prog.fn(name)
    np_ = len(ex.ctx.panics)
    saved = ex.ctx.cur_guard; ex.ctx.cur_guard = T
    v, rg = ex.call_body(f, args, T)        # same abstractions as the library side: calendar calls become the same UF applications
    ex.ctx.cur_guard = saved
    inner = ex.ctx.panics[np_:]; del ex.ctx.panics[np_:]
    if inner: ex.ctx.contract_panics = getattr(ex.ctx, 'contract_panics', []) + inner
    return v

def decide(qdir, tag, label, constraints, timeout, want='unsat', names=None, cross=False):
    txt = solve.to_smt2(constraints)
    path = os.path.join(qdir, '%s_%s.smt2' % (tag, label))
    open(path, 'w').write(txt)
    r = solve.race(path, timeout, solvers=solve.PORTFOLIO_CROSS if cross else solve.PORTFOLIO, need_all=cross)
    q = {'query': label, 'verdict': r.verdict, 'solver': r.solver, 'secs': round(r.secs, 3), 'wanted': want}
    model = None
    if r.verdict == 'sat' and names:
        model = solve.get_model(txt, names, r.solver, max(60, timeout))
    return r, q, model

def schedule_cell(ex, sets, last, now):
    sched = Agg([sets[k] for k in ORDER] + [last, now], 'struct:CronSchedule')
    return cell(ex, sched)

def piece(prog, ob, checks_on, qdir, timeout, cross):
    """one C17 obligation (ob.opts['piece']) -> record"""
    which = ob.opts['piece']; ylo, yhi = ob.opts.get('days', (719_162, 3_652_058))
    rec = {'fn': 'CronSchedule::next [%s]' % which, 'kind': 'holds', 'profile': 'overflow-checks=' + ('on' if checks_on else 'off'), 'slice': {'days': [ylo, yhi]},
           'abstractions': ['DateTime getters month/day/weekday/hour/minute (uninterpreted, shared with the oracle)', 'days_to_date', 'date_to_days', 'spec_rd/uf', 'nanos_to_days_nanos', 'days_nanos_to_nanos', 'nanos_to_time']}
    t0 = time.time()
    try:
        r = _piece(prog, ob, which, checks_on, qdir, timeout, cross, ylo, yhi, rec)
    except (Inconclusive, MergeFail, KeyError, AttributeError, IndexError, TypeError, AssertionError, ValueError) as e:
        rec.update(verdict='inconclusive', reason='%s: %s' % (type(e).__name__, e), trace=traceback.format_exc()[-1500:])
    rec['wall_s'] = round(time.time() - t0, 2)
    return rec

def _piece(prog, ob, which, checks_on, qdir, timeout, cross, dlo, dhi, rec):
    ctx = Ctx()
    ex = Exec(prog.fns, prog.consts, prog.impl, prog.enums, ctx=ctx, unwind=16, opts={'overflow_checks': checks_on, 'clock_max_secs': 253_402_300_799})
    realistic = bool(ob.opts.get('realistic'))
    install(ex, realistic=realistic)
    if realistic: rec['note'] = 're-decided with the real getters and the real closed-form day count to obtain a replayable model'
    f = find_next(prog)
    header, back, names = loop_shape(ex, f)
    sets, cons = make_sets()
    tag = 'c17_%s_%s' % (which, 'on' if checks_on else 'off')
    queries = []
    def finish(viol_sets, witness, model_names, panic_scope=None):
        """viol_sets: list of (label, constraint that must be unsat); witness: constraint that must be sat"""
        base = cons + list(ctx.side)
        rw, q, _ = decide(qdir, tag, 'witness', base + [witness], min(timeout, 200), want='sat'); queries.append(q)
        rec['vacuity_witness'] = rw.verdict
        verdict = 'holds'
        if getattr(ctx, 'contract_panics', None):
            rcp, q, _ = decide(qdir, tag, 'contract_total', base + [zor(*[g for g, _, _ in ctx.contract_panics])], timeout); queries.append(q)
            if rcp.verdict != 'unsat': verdict = 'inconclusive'; rec['reason'] = 'oracle/contract predicate may panic'
        # one query per panic site (the sites name what could go wrong)
        expanded = []
        for label, v in viol_sets:
            if label in ('panics', 'prologue_panics'):
                for i, (gpan, site, msg) in enumerate(ctx.panics):
                    expanded.append(('panic@%s[%s]' % (site.split('::')[-1], msg[:30]), zand(gpan, panic_scope) if panic_scope is not None else gpan))
            else: expanded.append((label, v))
        for label, v in expanded:
            if z3.is_false(v):
                queries.append({'query': label, 'verdict': 'unsat', 'solver': 'trivial', 'secs': 0.0, 'wanted': 'unsat'}); continue
            allnames = list(model_names) + ['set_%s_%d' % (k, i) for k in ORDER for i in range(FIELD_RANGES[k][0], FIELD_RANGES[k][1] + 1)]
            r, q, model = decide(qdir, tag, label, base + [v], timeout, names=allnames, cross=cross); queries.append(q)
            if r.verdict == 'sat':
                verdict = 'counterexample'; rec['failed_query'] = label
                if model is None:
                    verdict = 'inconclusive'; rec['reason'] = 'sat but no model'; break
                rec['model'] = {k: v for k, v in model.items() if not k.startswith('set_')}
                setargs = []
                for k in ORDER:
                    vals = [str(i) for i in range(FIELD_RANGES[k][0], FIELD_RANGES[k][1] + 1) if model.get('set_%s_%d' % (k, i))]
                    setargs.append(','.join(vals) if vals else '-')
                    rec['model']['set_' + k] = setargs[-1]
                if 'now_d' in model:
                    tail = [model['now_d'], model['now_secs'], 'true' if model['has_last'] else 'false', model['last_d'], model['last_min']]
                else:
                    a = model['next_d'] * 1440 + model['next_min'] - 1        # clock one minute before the loop state, no previous result
                    tail = [a // 1440, (a % 1440) * 60, 'false', 0, 0]
                rec['replay_fn'] = 'c17_replay_holds'; rec['model_args'] = setargs + [str(x) for x in tail]
                rec['scan_fn'] = 'c17_replay_scan_holds'; rec['scan_args'] = setargs + ['738156', '1096']     # three clock values on each day of 2022-2024
                break
            if r.verdict != 'unsat':
                verdict = 'inconclusive'; rec['reason'] = 'query %s: %s' % (label, r.verdict)
        if verdict == 'holds' and rw.verdict != 'sat':
            verdict = 'inconclusive'; rec['reason'] = 'vacuity witness %s' % rw.verdict
        rec.update(verdict=verdict, queries=queries, symex_s=round(time.time() - t_sym, 2), solver_s=round(sum(q['secs'] for q in queries), 2),
                   panic_sites=len(ctx.panics), side_constraints=len(ctx.side), functions_encoded=sorted(ctx.reached), std_models=sorted(ctx.models_used),
                   abstractions_used=sorted(getattr(ctx, 'abstractions_used', set())))
        return rec
    t_sym = time.time()
    NONE = En(mk_int(0, 'isize'), {0: []}, 'Option')
    if which == 'prologue':
        # arbitrary pinned clock `now` (any second, offset 0) and last_schedule in {None, Some(whole minute)}
        nd, nn, c1 = sym_dt('now', dlo, dhi); cons += c1
        secs = z3.Int('now_secs'); cons += [nn.t == secs * 10 ** 9, secs >= 0, secs < 86400]          # second-granular clock
        has_last = z3.Bool('has_last')
        ld, ln, c2 = sym_dt('last', dlo, dhi); cons += c2
        lm = z3.Int('last_min'); cons += [ln.t == lm * MIN_NS]
        last = En(IV(z3.If(has_last, 1, 0), 'isize', 0, 1), {0: [], 1: [dt_value(ld, ln)]}, 'Option')
        now = En(mk_int(1, 'isize'), {1: [dt_value(nd, nn)]}, 'Option')
        selfref = schedule_cell(ex, sets, last, now)
        stops = []
        ex.call_body(f, [selfref], T, stop_at={header}, stops=stops)
        if len(stops) != 1: raise Inconclusive('prologue: %d states at the loop header' % len(stops))
        st = stops[0]; fr = st['frame']
        nxt = ex.deref(fr[names['next']]); domr = fr[names['dom_restricted']]; dowr = fr[names['dow_restricted']]
        x_d, x_n = nxt.f[0], nxt.f[1]
        # expected start: max(now's minute, last) + 1 minute  (in absolute minutes)
        now_min = nd.t * 1440 + secs / 60
        last_min = ld.t * 1440 + lm
        start = z3.If(z3.And(has_last, last_min >= now_min), last_min, now_min) + 1
        good = zand(x_n.t < NPD, x_n.t >= 0, x_d.t * 1440 * MIN_NS + x_n.t == start * MIN_NS,
                    nxt.f[2].disc.t == 0 if nxt.f[2].disc.const() is None else T,
                    domr.t == (sets['dom'].size().t != 31), dowr.t == (sets['dow'].size().t != 7))
        # a wrong loop entry state is a violation of the property when it is observable: the loop starts too early at a minute
        # that matches, starts too late past a minute that matches, or does not start on a whole minute
        q0, r0 = z3.Int('x0q'), z3.Int('x0r'); ctx.side += [x_n.t == q0 * MIN_NS + r0, r0 >= 0, r0 < MIN_NS]
        x_abs = x_d.t * 1440 + q0
        sargs = [sets[k] for k in ORDER]
        def matches(d_iv, n_iv):
            return call_spec(ex, prog, 'spec_c17_matches', sargs + [domr, dowr, d_iv, n_iv])
        wd, wn, c3 = sym_dt('w', dlo, dhi); cons += c3
        wm = z3.Int('w_min'); cons += [wn.t == wm * MIN_NS]
        wabs = wd.t * 1440 + wm
        observable = zor(r0 != 0, zand(x_abs < start, matches(x_d, x_n).t), zand(x_abs > start, wabs >= start, wabs < x_abs, matches(wd, wn).t))
        flags_ok = zand(domr.t == (sets['dom'].size().t != 31), dowr.t == (sets['dow'].size().t != 7))
        viol = [('loop_entry_state_observably_wrong', zand(st['guard'], znot(good), observable)), ('restriction_flags', zand(st['guard'], znot(flags_ok))),
                ('prologue_panics', zor(*[g for g, _, _ in ctx.panics]))]
        rec['loop_entry_state_exact'] = None
        return finish(viol, st['guard'], ['now_d', 'now_secs', 'has_last', 'last_d', 'last_min'])
    # ---- one iteration from an arbitrary loop state: `next` is any whole minute, flags as the prologue leaves them
    xd, xn, c1 = sym_dt('next', dlo, dhi); cons += c1
    xm = z3.Int('next_min'); cons += [xn.t == xm * MIN_NS]
    domr = BV(z3.Bool('dom_restricted')); dowr = BV(z3.Bool('dow_restricted'))
    cons += [domr.t == (sets['dom'].size().t != 31), dowr.t == (sets['dow'].size().t != 7)]
    selfref = schedule_cell(ex, sets, NONE, NONE)
    init = {names['next']: dt_value(xd, xn), names['dom_restricted']: domr, names['dow_restricted']: dowr}
    stops = []
    try:
        ret, rg = ex.call_body(f, [selfref], T, entry=header, frame_init=init, stop_at={header}, stops=stops)
    except (AttributeError, TypeError) as e:
        # a local other than `next` and the two restriction flags is read before it is written in the loop body: the loop carries
        # additional state for which this cut has no invariant -> not decided (exit 2), never a pass
        raise Inconclusive('loop body reads a local that is not part of the modelled loop state (next, dom_restricted, dow_restricted): '
                           'additional loop-carried state, the loop-invariant cut has no invariant for it (%s)' % e)
    edges = {}
    for s_ in stops: edges.setdefault(s_['from'], []).append(s_)
    if sorted(edges) != back: raise Inconclusive('iteration: continue edges %s, expected back edges %s' % (sorted(edges), back))
    # the four continue edges in source order: month, day, hour, minute
    kinds = dict(zip(back, ['month', 'day', 'hour', 'minute']))
    absmin = xd.t * 1440 + xm
    sargs = [sets[k] for k in ORDER]
    def matches(d_iv, n_iv):
        return call_spec(ex, prog, 'spec_c17_matches', sargs + [domr, dowr, d_iv, n_iv])
    m_next = matches(xd, xn)
    if which == 'exit':
        # leaving the loop: returns Some(next), records it as last_schedule, and next matches the schedule
        if ret is None: raise Inconclusive('no exit path')
        sched = ex.deref(selfref)
        last_after = sched.f[5]
        rv = ret.v[1][0]; lv = last_after.v[1][0]
        good = zand(ret.disc.t == 1 if ret.disc.const() is None else (T if ret.disc.const() == 1 else F),
                    rv.f[0].t == xd.t, rv.f[1].t == xn.t,
                    last_after.disc.t == 1 if last_after.disc.const() is None else (T if last_after.disc.const() == 1 else F),
                    lv.f[0].t == xd.t, lv.f[1].t == xn.t, m_next.t)
        viol = [('exit_returns_matching_next', zand(rg, znot(good))), ('panics', zor(*[g for g, _, _ in ctx.panics]))]
        return finish(viol, rg, ['next_d', 'next_min'])
    # continue edges
    bb = [b for b, k in kinds.items() if k == which][0]
    sts = edges[bb]
    if len(sts) != 1: raise Inconclusive('edge %s: %d states' % (which, len(sts)))
    st = sts[0]; g = st['guard']
    nx2 = ex.deref(st['frame'][names['next']]); yd, yn = nx2.f[0], nx2.f[1]
    ym = z3.Int('next2_min'); ctx.side.append(z3.Implies(g, yn.t == ym * MIN_NS))      # defines ym; whole-minute-ness is asserted below via division
    q_, r_ = z3.Int('n2q'), z3.Int('n2r'); ctx.side += [yn.t == q_ * MIN_NS + r_, r_ >= 0, r_ < MIN_NS]
    absmin2 = yd.t * 1440 + q_
    whole = r_ == 0
    # (A) landing point in closed form
    if which == 'minute': landing = absmin2 == absmin + 1
    elif which == 'hour':
        hq = z3.Int('hq'); hr = z3.Int('hr'); ctx.side += [absmin == hq * 60 + hr, hr >= 0, hr < 60]
        landing = absmin2 == (hq + 1) * 60
    elif which == 'day': landing = zand(yd.t == xd.t + 1, yn.t == 0)
    else:
        # first day of the following month, 00:00: described through the oracle on the bound local date of `next`
        landing_v = call_spec(ex, prog, 'spec_c17_month_landing', [xd, yd, yn])
        landing = landing_v.t
        # lemma instance (strict monotonicity of the closed-form day count, oracle_rd_monotone_holds) for the two dates involved
        ctx.side.append(call_spec(ex, prog, 'spec_c17_month_mono_instance', [xd]).t)
        rec['lemma_instances'] = ['oracle_rd_monotone_holds((date of next), (first of the following month))']
    progress = zand(whole, yn.t >= 0, yn.t < NPD, absmin2 > absmin, nx2.f[2].disc.t == 0 if nx2.f[2].disc.const() is None else T)
    # (N) nothing skipped: an arbitrary whole minute w with next <= w < next' does not match.  Field constancy on that
    # interval is a lemma about the getters (c17_*_constant_holds, discharged in the same run), instantiated for (w, next).
    wd, wn, c3 = sym_dt('w', dlo, dhi); cons += c3
    wm = z3.Int('w_min'); cons += [wn.t == wm * MIN_NS]
    wabs = wd.t * 1440 + wm
    m_w = matches(wd, wn)
    lemma = call_spec(ex, prog, 'spec_c17_constancy_' + which, [xd, xn, wd, wn])
    skipped = zand(g, wabs >= absmin, wabs < absmin2, lemma.t, m_w.t)
    # what the property needs of an edge: the new loop state is a later whole minute and no matching minute lies in between.
    # The closed-form landing point is the means to (N), not a requirement of its own: it is recorded as information.
    base_i = cons + list(ctx.side)
    rl, ql, _ = decide(qdir, tag, 'info_landing_closed_form', base_i + [zand(g, znot(landing))], min(timeout, 60)); ql['wanted'] = 'informational'; queries.append(ql)
    rec['landing_matches_closed_form'] = (rl.verdict == 'unsat')
    viol = [('no_match_skipped', skipped), ('later_whole_minute', zand(g, znot(progress))), ('panics', zor(*[gg for gg, _, _ in ctx.panics]))]
    return finish(viol, g, ['next_d', 'next_min', 'w_d', 'w_min'])
