"""Symbolic executor for rustc MIR text -> z3 terms over mathematical integers (LIA + UF).

Every MIR integer operation gets its exact Rust meaning (checked ops: (wrapped, overflowed); unchecked: wrap
mod 2^w; casts truncate; Div/Rem truncate toward zero) on top of fresh floor (q, r) pairs for division by
constants.  States are merged at control-flow joins; loops are unrolled with a checked bound.
Anything not understood raises Inconclusive -- the executor never guesses."""
import re, sys, itertools
import z3
from .mir import split_top, MirError

sys.setrecursionlimit(20000)

class Inconclusive(Exception):
    pass

INT_TYPES = {'i8': (8, 1), 'i16': (16, 1), 'i32': (32, 1), 'i64': (64, 1), 'i128': (128, 1), 'isize': (64, 1),
             'u8': (8, 0), 'u16': (16, 0), 'u32': (32, 0), 'u64': (64, 0), 'u128': (128, 0), 'usize': (64, 0), 'char': (32, 0)}
def ty_range(t):
    w, s = INT_TYPES[t]
    return (-(1 << (w - 1)), (1 << (w - 1)) - 1) if s else (0, (1 << w) - 1)

T = z3.BoolVal(True)
F = z3.BoolVal(False)

def zand(*xs):
    ys = []
    for x in xs:
        if z3.is_true(x): continue
        if z3.is_false(x): return F
        if z3.is_and(x): ys += x.children()
        elif x.num_args() == 2 and z3.is_int_value(x.arg(0)) and z3.is_int_value(x.arg(1)):
            r = fold_ground(x, 0)
            if r is True: continue
            if r is False: return F
            ys.append(x)
        else: ys.append(x)
    if len(ys) > 1:
        seen = set(); zs = []
        for y in ys:
            k = y.get_id()
            if k not in seen: seen.add(k); zs.append(y)
        ys = zs
    if not ys: return T
    if len(ys) == 1: return ys[0]
    # a conjunct Not(And(a, b, x)) next to the conjuncts a and b is Not(x): keeps path conditions in literal form
    if any(z3.is_not(y) and z3.is_and(y.arg(0)) for y in ys):
        ids = {y.get_id() for y in ys}
        zs = []
        for y in ys:
            if z3.is_not(y) and z3.is_and(y.arg(0)):
                rest = [x for x in y.arg(0).children() if x.get_id() not in ids]
                if not rest: return F
                y = z3.Not(rest[0]) if len(rest) == 1 else z3.Not(z3.And(*rest))
                if z3.is_not(y) and z3.is_not(y.arg(0)): y = y.arg(0).arg(0)
            zs.append(y)
        ys = zs
        if len(ys) == 1: return ys[0]
    return z3.And(*ys)
def zor(*xs):
    ys = []
    for x in xs:
        if z3.is_false(x): continue
        if z3.is_true(x): return T
        ys.append(x)
    if not ys: return F
    if len(ys) == 1: return ys[0]
    return z3.Or(*ys)
def _conj(x):
    return list(x.children()) if z3.is_and(x) else [x]
def join_guard(g0, g1):
    """Or(g0, g1), simplified when the two differ only in one complementary literal (a diamond's two arms)"""
    if z3.is_false(g0): return g1
    if z3.is_false(g1): return g0
    a = _conj(g0); b = _conj(g1)
    if len(a) == len(b):
        ida = {x.get_id(): x for x in a}; idb = {x.get_id(): x for x in b}
        only_a = [x for k, x in ida.items() if k not in idb]; only_b = [x for k, x in idb.items() if k not in ida]
        if len(only_a) == 1 and len(only_b) == 1:
            x, y = only_a[0], only_b[0]
            if (z3.is_not(x) and x.arg(0).eq(y)) or (z3.is_not(y) and y.arg(0).eq(x)):
                return zand(*[c for c in a if c.get_id() in idb])
    return zor(g0, g1)
def znot(x):
    if z3.is_true(x): return F
    if z3.is_false(x): return T
    return z3.Not(x)

# ------------------------------------------------------------------ values
class IV:
    """integer: z3 Int term, Rust type, sound interval [lo, hi]"""
    __slots__ = ('t', 'ty', 'lo', 'hi')
    def __init__(s, t, ty, lo, hi):
        if lo == hi and not z3.is_int_value(t): t = z3.IntVal(lo)       # the (sound) interval pins the value: keep the term a numeral
        s.t = t; s.ty = ty; s.lo = lo; s.hi = hi
    def const(s): return s.lo if s.lo == s.hi else None
    def __repr__(s): return 'IV(%s:%s[%s,%s])' % (s.t if s.lo != s.hi else s.lo, s.ty, s.lo, s.hi)
class BV:
    __slots__ = ('t', 'c', 'cmp')
    def __init__(s, t, c=None): s.t = t; s.c = c; s.cmp = None
    def __repr__(s): return 'BV(%s)' % (s.c if s.c is not None else s.t)
class Agg:
    __slots__ = ('f', 'kind')
    def __init__(s, fields, kind='tuple'): s.f = list(fields); s.kind = kind
    def __repr__(s): return 'Agg%s(%s)' % (s.kind, s.f)
class En:
    """enum value: discriminant + payload per variant index"""
    __slots__ = ('disc', 'v', 'ty')
    def __init__(s, disc, variants, ty=''): s.disc = disc; s.v = variants; s.ty = ty
    def __repr__(s): return 'En<%s>(%s,%s)' % (s.ty, s.disc, s.v)
class Ref:
    """reference to a place: activation id (or cell id), local, projection"""
    __slots__ = ('act', 'local', 'proj')
    def __init__(s, act, local, proj): s.act = act; s.local = local; s.proj = list(proj)
    def __repr__(s): return 'Ref(%s,%s,%s)' % (s.act, s.local, s.proj)
class Opaque:
    __slots__ = ('tag',)
    def __init__(s, tag): s.tag = tag
    def __repr__(s): return 'Opaque(%s)' % s.tag
class StrLit:
    __slots__ = ('b',)
    def __init__(s, b): s.b = b
    def __repr__(s): return 'StrLit(%r)' % s.b
class StrSel:
    """one of finitely many string literals, selected by conditions: [(cond, bytes)]; exactly one cond holds"""
    __slots__ = ('alts',)
    def __init__(s, alts): s.alts = alts
    def __repr__(s): return 'StrSel(%s)' % [b for _, b in s.alts]
def _str_alts(v):
    if isinstance(v, StrLit): return [(T, v.b)]
    return v.alts
class ArrIter:
    __slots__ = ('arr', 'idx', 'byref')
    def __init__(s, arr, idx, byref=True): s.arr = arr; s.idx = idx; s.byref = byref
class Closure:
    __slots__ = ('defname', 'caps')
    def __init__(s, defname, caps): s.defname = defname; s.caps = caps
class FnPtr:
    __slots__ = ('name',)
    def __init__(s, name): s.name = name

UNIT = Agg([], 'unit')
def mk_int(v, ty): return IV(z3.IntVal(v), ty, v, v)
def mk_bool(b): return BV(T if b else F, bool(b))
_CMP = {z3.Z3_OP_LE: lambda a, b: a <= b, z3.Z3_OP_GE: lambda a, b: a >= b, z3.Z3_OP_LT: lambda a, b: a < b, z3.Z3_OP_GT: lambda a, b: a > b,
        z3.Z3_OP_EQ: lambda a, b: a == b, z3.Z3_OP_DISTINCT: lambda a, b: a != b}
def fold_ground(t, depth=4):
    """True/False when the Boolean term is a small ground combination of comparisons of numerals, else None"""
    if z3.is_true(t): return True
    if z3.is_false(t): return False
    if not z3.is_app(t): return None
    k = t.decl().kind(); n = t.num_args()
    if k in _CMP and n == 2:
        a, b = t.arg(0), t.arg(1)
        if z3.is_int_value(a) and z3.is_int_value(b): return _CMP[k](a.as_long(), b.as_long())
        return None
    if depth <= 0 or n > 64: return None
    if k == z3.Z3_OP_NOT:
        r = fold_ground(t.arg(0), depth - 1)
        return None if r is None else (not r)
    if k in (z3.Z3_OP_AND, z3.Z3_OP_OR):
        unknown = False
        for i in range(n):
            r = fold_ground(t.arg(i), depth - 1)
            if r is None: unknown = True
            elif r is (k == z3.Z3_OP_OR): return r          # a true disjunct / a false conjunct decides
        return None if unknown else (k == z3.Z3_OP_AND)
    if k == z3.Z3_OP_IMPLIES and n == 2:
        a = fold_ground(t.arg(0), depth - 1)
        if a is False: return True
        b = fold_ground(t.arg(1), depth - 1)
        if b is True: return True
        if a is True and b is False: return False
        return None
    return None

def eq_const(t, k, depth=12):
    """t == k for an if-then-else tree t over numerals, with the branch conditions it implies made explicit conjuncts"""
    if z3.is_int_value(t): return T if t.as_long() == k else F
    if depth > 0 and z3.is_app_of(t, z3.Z3_OP_ITE):
        c = t.arg(0); ex = eq_const(t.arg(1), k, depth - 1); ey = eq_const(t.arg(2), k, depth - 1)
        if z3.is_false(ey): return zand(c, ex)
        if z3.is_false(ex): return zand(znot(c), ey)
        if z3.is_true(ex) and z3.is_true(ey): return T
        if ex.eq(ey): return ex
        return z3.If(c, ex, ey)
    return t == k

def bv_of(t):
    r = fold_ground(t)
    if r is not None: return mk_bool(r)
    return BV(t)

STD_ENUMS = {'Option': ['None', 'Some'], 'Result': ['Ok', 'Err'], 'ControlFlow': ['Continue', 'Break']}

class Ctx:
    def __init__(self):
        self.side = []        # definitional constraints (fresh q/r, UF result ranges, contracts)
        self.divmemo = {}
        self.splitmemo = {}
        self.n = 0
        self.panics = []      # (guard, site, message)
        self.unwound = []     # (guard, where): states cut by the unwinding bound
        self.cur_guard = T
        self.frames = {}      # activation id -> current frame dict
        self.nact = 0
        self.reached = set()  # crate functions executed
        self.models_used = set()
        self.cases = {}       # term id -> finite case table [(cond, const value)]
        self.keep = []        # terms kept alive so that their ids stay unique
        self.drops = 0        # number of times a path was cut or its guard strengthened (panic, assume, unwinding)
        self.exhaustive = []  # sets of literal ids that are jointly exhaustive (arms of one switch)
    def fresh(self, p):
        self.n += 1
        return z3.Int('%s!%d' % (p, self.n))
    def new_act(self):
        self.nact += 1
        return self.nact

def wrap(ctx, t, lo, hi, ty):
    tlo, thi = ty_range(ty)
    if lo >= tlo and hi <= thi: return IV(t, ty, lo, hi)
    M = thi - tlo + 1
    klo = (lo - tlo) // M; khi = (hi - tlo) // M
    if klo == khi:
        return IV(t - klo * M, ty, lo - klo * M, hi - klo * M)
    key = (t.get_id(), ty)
    memo = ctx.divmemo.get(('wrap',) + key)
    if memo is None:
        k = ctx.fresh('wk'); r = ctx.fresh('wr')
        ctx.side += [t - tlo == k * M + r, r >= 0, r < M]
        memo = ctx.divmemo[('wrap',) + key] = (k, r, t)
    k, r, _ = memo
    ctx.side.append(z3.Implies(ctx.cur_guard, z3.And(k >= klo, k <= khi)))
    return IV(r + tlo, ty, tlo, thi)

def split_const(ctx, t):
    """t == base + k with k an integer constant (canonical base term), so that dividends that differ by a
    multiple of the divisor share one (q, r) pair"""
    key = t.get_id()
    hit = ctx.splitmemo.get(key)
    if hit is not None and hit[2].eq(t): return hit[0], hit[1]
    s = z3.simplify(t)
    k = 0; base = s
    if z3.is_int_value(s): base = z3.IntVal(0); k = s.as_long()
    elif z3.is_app_of(s, z3.Z3_OP_ITE):
        # ite(c, b1 + k1, b2 + k2) == ite(c, b1 + (k1 - k2), b2) + k2
        c_, x, y = s.children()
        b1, k1 = split_const(ctx, x); b2, k2 = split_const(ctx, y)
        k = k2
        base = z3.If(c_, z3.simplify(b1 + (k1 - k2)), b2)
    elif z3.is_add(s):
        nums = [c for c in s.children() if z3.is_int_value(c)]
        if nums:
            k = sum(c.as_long() for c in nums)
            rest = [c for c in s.children() if not z3.is_int_value(c)]
            base = rest[0] if len(rest) == 1 else z3.Sum(rest)
    ctx.splitmemo[key] = (base, k, t)
    return base, k

def fdiv(ctx, a, c):
    """floor quotient/remainder of IV a by positive int c"""
    base, k = split_const(ctx, a.t)
    j, k0 = divmod(k, c)
    key = (base.get_id(), k0, c)
    hit = ctx.divmemo.get(key)
    if hit is None or not hit[2].eq(base):
        q0 = ctx.fresh('q'); r = ctx.fresh('r')
        ctx.side += [base + k0 == q0 * c + r, r >= 0, r < c]
        hit = ctx.divmemo[key] = (q0, r, base)
    q0, r, _ = hit
    q = q0 + j if j else q0
    # quotient bounds hold under the path guard the interval was derived under
    ctx.side.append(z3.Implies(ctx.cur_guard, z3.And(q0 >= a.lo // c - j, q0 <= a.hi // c - j)))
    return q, r, a.lo // c, a.hi // c

def ite_iv(c, a, b):
    if c.c is True: return a
    if c.c is False: return b
    if a.t.eq(b.t): return IV(a.t, a.ty, min(a.lo, b.lo), max(a.hi, b.hi))      # bounds are path-specific: hull
    return IV(z3.If(c.t, a.t, b.t), a.ty, min(a.lo, b.lo), max(a.hi, b.hi))

class MergeFail(Exception):
    pass

CUR_CTX = [None]
def merge(c, a, b):
    """value = if c then a else b"""
    if a is b: return a
    if a is None: return b
    if b is None: return a
    if isinstance(a, IV) and isinstance(b, IV): return ite_iv(c, a, b)
    if isinstance(a, BV) and isinstance(b, BV):
        if a.c is not None and a.c == b.c: return a
        if a.t.eq(b.t): return a
        return BV(z3.If(c.t, a.t, b.t))
    if isinstance(a, Agg) and isinstance(b, Agg) and len(a.f) == len(b.f):
        return Agg([merge(c, x, y) for x, y in zip(a.f, b.f)], a.kind)
    if isinstance(a, En) and isinstance(b, En):
        d = merge(c, a.disc, b.disc); v = {}
        for k in set(a.v) | set(b.v):
            if k in a.v and k in b.v:
                if len(a.v[k]) != len(b.v[k]): raise MergeFail('enum payload arity')
                v[k] = [merge(c, x, y) for x, y in zip(a.v[k], b.v[k])]
            else: v[k] = a.v.get(k, b.v.get(k))
        return En(d, v, a.ty or b.ty)
    if isinstance(a, Ref) and isinstance(b, Ref):
        if a.act == b.act and a.local == b.local and a.proj == b.proj: return a
        cx = CUR_CTX[0]
        if cx is not None and not a.proj and not b.proj:
            fa = cx.frames.get(a.act); fb = cx.frames.get(b.act)
            if fa is not None and fb is not None and fa.get('__fn') == 'cell' and fb.get('__fn') == 'cell':
                # two shared references to element temporaries of the std models (slice[i], last(), ..): a reference to the merged element
                n = cx.new_act(); cx.frames[n] = {'e': merge(c, fa.get('e'), fb.get('e')), '__ref': {}, '__act': n, '__fn': 'cell'}
                return Ref(n, 'e', [])
        raise MergeFail('distinct refs')
    if isinstance(a, StrLit) and isinstance(b, StrLit) and a.b == b.b: return a
    if isinstance(a, (StrLit, StrSel)) and isinstance(b, (StrLit, StrSel)):
        if c.c is True: return a
        if c.c is False: return b
        byb = {}
        for cnd, bs in _str_alts(a): byb[bs] = zor(byb.get(bs, F), zand(c.t, cnd))
        for cnd, bs in _str_alts(b): byb[bs] = zor(byb.get(bs, F), zand(znot(c.t), cnd))
        return StrSel([(cnd, bs) for bs, cnd in byb.items()])
    if isinstance(a, ArrIter) and isinstance(b, ArrIter) and a.arr is b.arr and a.idx == b.idx: return a
    if isinstance(a, Closure) and isinstance(b, Closure) and a.defname == b.defname:
        return Closure(a.defname, [merge(c, x, y) for x, y in zip(a.caps, b.caps)])
    if isinstance(a, Opaque) or isinstance(b, Opaque): return Opaque('merged')    # reads of it fail closed where a value is needed
    if hasattr(a, 'merge_with'):
        r = a.merge_with(c, b)
        if r is not None: return r
    raise MergeFail('merge %r %r' % (a, b))

# ------------------------------------------------------------------ executor
class Exec:
    def __init__(self, fns, consts, impl_index, enums, ctx=None, unwind=16, abstractions=None, opts=None):
        self.fns = fns; self.consts = consts; self.impl = impl_index; self.ctx = ctx or Ctx()
        CUR_CTX[0] = self.ctx
        self.enums = dict(STD_ENUMS); self.enums.update(enums)
        self.unwind = unwind
        self.constcache = {}
        self.depth = 0
        self.abstractions = abstractions or {}     # fn last-name -> Abstraction
        self.in_contract = 0
        self.opts = opts or {}
        self.by_last = {}
        for n in fns:
            self.by_last.setdefault(n.split('::')[-1], []).append(n)
        self.const_by_last = {}
        for n in consts:
            self.const_by_last.setdefault(n.split('::')[-1], []).append(n)
        self.variant_global = {}
        for e, vs in self.enums.items():
            for i, v in enumerate(vs):
                self.variant_global.setdefault(v, set()).add(i)
        self.extra_models = []     # callables (exec, callee, args, guard, site) -> (val, rg) or None
        self.loop_unwind = {}      # fn last name -> bound

    # ---- name resolution
    @staticmethod
    def strip_generics(name):
        # remove ::<...> segments
        out = []; depth = 0; i = 0
        while i < len(name):
            if name.startswith('::<', i) and depth == 0 and not name.startswith('::<impl', i):
                j = i + 3; d = 1
                while j < len(name) and d:
                    if name[j] == '<': d += 1
                    elif name[j] == '>' and name[j - 1] != '-': d -= 1
                    j += 1
                i = j; continue
            out.append(name[i]); i += 1
        return ''.join(out)

    def resolve(self, callee):
        c = self.strip_generics(callee)
        if c in self.fns: return c
        m = re.match(r'^<(?:[\w:]*::)?(\w+) as (?:[\w:]*::)?(\w+(?:<.*>)?)>::(\w+)$', c)
        if m:
            k = (m.group(1), re.sub(r'\w+::', '', m.group(2)).replace(' ', ''), m.group(3))
            if k in self.impl: return self.impl[k]
            return None
        m = re.match(r'^(?:[\w:]*::)?(\w+)::(\w+)$', c)
        if m and (m.group(1), None, m.group(2)) in self.impl:
            return self.impl[(m.group(1), None, m.group(2))]
        if '<' in c: return None
        parts = c.split('::')
        cands = []
        for n in self.by_last.get(parts[-1], []):
            if '<impl' in n: continue
            np_ = n.split('::')
            k = min(len(np_), len(parts))
            if np_[-k:] == parts[-k:]: cands.append(n)
        if len(cands) == 1: return cands[0]
        if len(cands) > 1:
            # prefer the longest suffix agreement
            exact = [n for n in cands if n == c or c.endswith('::' + n) or n.endswith('::' + c)]
            if len(exact) == 1: return exact[0]
            raise Inconclusive('ambiguous callee %s: %s' % (callee, cands))
        return None

    # ---- constants
    def const_value(self, name):
        if name in self.constcache: return self.constcache[name]
        key = None
        if name in self.consts: key = name
        else:
            parts = name.split('::')
            cands = []
            def segs(x):
                # split on '::' outside <...>; an `<impl at file:line>` segment matches any one segment
                out = []; d = 0; cur = ''
                i = 0
                while i < len(x):
                    if x[i] == '<': d += 1
                    elif x[i] == '>' and x[i - 1] != '-': d -= 1
                    if d == 0 and x.startswith('::', i): out.append(cur); cur = ''; i += 2; continue
                    cur += x[i]; i += 1
                out.append(cur); return out
            parts = segs(name)
            for n in self.consts:
                np_ = segs(n)
                if np_[-1] != parts[-1]: continue
                k = min(len(np_), len(parts))
                if all(a == b or a.startswith('<impl at') or b.startswith('<impl at') for a, b in zip(np_[-k:], parts[-k:])): cands.append(n)
            if len(cands) == 1: key = cands[0]
            elif len(cands) > 1:
                raise Inconclusive('ambiguous const %s: %s' % (name, cands))
        if key is None: raise Inconclusive('unknown const ' + name)
        c = self.consts[key]
        if c[0] == 'lit': v = self.literal(c[1])
        else:
            saved = self.ctx.cur_guard
            v, _ = self.call_body(c[1], [], T)
            self.ctx.cur_guard = saved
        self.constcache[name] = v
        return v

    def literal(self, s):
        s = s.strip()
        if s in ('true', 'false'): return mk_bool(s == 'true')
        m = re.match(r'^(-?[\d_]+)_([iu](?:8|16|32|64|128|size))$', s)
        if m: return mk_int(int(m.group(1).replace('_', '')), m.group(2))
        m = re.match(r'^(?:core::num::<impl )?([iu](?:8|16|32|64|128|size))>?::(MIN|MAX)$', s)
        if m:
            lo, hi = ty_range(m.group(1)); return mk_int(lo if m.group(2) == 'MIN' else hi, m.group(1))
        if s == '()': return UNIT
        if s.startswith('"'): return StrLit(eval('b' + s) if all(ord(ch) < 128 for ch in s) else eval(s).encode())
        if s.startswith('b"'): return StrLit(eval(s))
        if s.startswith("'"):
            return mk_int(ord(eval(s)), 'char')
        m = re.match(r'^b\'(.*)\'$', s)
        if m: return mk_int(eval(s)[0], 'u8')
        if s in ('Less', 'Equal', 'Greater') or re.match(r'^(std::cmp::)?Ordering::(Less|Equal|Greater)$', s):
            return mk_int({'Less': -1, 'Equal': 0, 'Greater': 1}[s.split('::')[-1]], 'i8')
        if s.startswith('ZeroSized: '):
            s2 = s[len('ZeroSized: '):]
            if s2.startswith('{closure@'): return Closure(s2, [])
            return UNIT
        m = re.match(r'^\{closure@.*\}$', s)
        if m: return Closure(s, [])
        if s in ('RangeFull', 'std::ops::RangeFull'): return UNIT
        if re.match(r'^(?:std::option::)?Option::<.*>::None$', s): return En(mk_int(0, 'isize'), {0: []}, 'Option')
        if s in ('std::time::UNIX_EPOCH', 'UNIX_EPOCH', 'SystemTime::UNIX_EPOCH', 'std::time::SystemTime::UNIX_EPOCH'):
            return Agg([mk_int(0, 'u64'), mk_int(0, 'u32')], 'struct:SystemTime')
        if re.match(r'^[\w:<>{}# ,]+$', s) and self.resolve_fnptr(s): return FnPtr(s)
        return self.const_value(s)

    def resolve_fnptr(self, s):
        return False

    # ---- places
    def parse_place(self, s):
        s = s.strip()
        if re.match(r'^_\d+$', s): return (s, [])
        if s.startswith('(*') and s.endswith(')') and self.balanced(s[2:-1]):
            b, p = self.parse_place(s[2:-1]); return (b, p + [('deref',)])
        if s.startswith('(') and s.endswith(')') and self.balanced(s[1:-1]):
            inner = s[1:-1]
            m = re.match(r'^(.*) as (\w+)$', inner)
            if m and self.balanced(m.group(1)):
                b, p = self.parse_place(m.group(1)); return (b, p + [('downcast', m.group(2))])
            depth = 0; idx = None
            for i, ch in enumerate(inner):
                if ch in '([{<': depth += 1
                elif ch in ')]}': depth -= 1
                elif ch == '>' and inner[i - 1] != '-': depth -= 1
                elif ch == '.' and depth == 0 and re.match(r'\.\d+:', inner[i:]): idx = i
            if idx is not None:
                k = int(re.match(r'\.(\d+):', inner[idx:]).group(1))
                b, p = self.parse_place(inner[:idx]); return (b, p + [('field', k)])
        m = re.match(r'^(.*)\[(_\d+)\]$', s)
        if m:
            b, p = self.parse_place(m.group(1)); return (b, p + [('index', m.group(2))])
        m = re.match(r'^(.*)\[(\d+) of (\d+)\]$', s)
        if m:
            b, p = self.parse_place(m.group(1)); return (b, p + [('cindex', int(m.group(2)))])
        raise Inconclusive('place? ' + s)

    @staticmethod
    def balanced(s):
        d = 0
        for i, ch in enumerate(s):
            if ch in '([{<': d += 1
            elif ch in ')]}': d -= 1
            elif ch == '>' and (i == 0 or s[i - 1] != '-'): d -= 1
            if d < 0: return False
        return d == 0

    def variant_index(self, en, name):
        if isinstance(en, En) and en.ty in self.enums and name in self.enums[en.ty]:
            return self.enums[en.ty].index(name)
        g = self.variant_global.get(name)
        if g and len(g) == 1: return next(iter(g))
        raise Inconclusive('variant index of %s (enum %s)' % (name, getattr(en, 'ty', '?')))

    def frame_of(self, act):
        return self.ctx.frames[act]

    def read(self, frame, place):
        base, proj = place
        v = frame.get(base)
        return self.view(frame, self.project(frame, v, proj))

    def deref(self, v):
        while isinstance(v, Ref):
            fr = self.frame_of(v.act)
            v = self.view(fr, self.project(fr, fr.get(v.local), v.proj))
        return v

    def project(self, frame, v, proj):
        for p in proj:
            if p[0] == 'deref':
                if not isinstance(v, Ref):
                    if isinstance(v, (StrLit, StrSel, Opaque)) or hasattr(v, 'is_strlike'): continue   # &str / &T modelled by value
                    if isinstance(v, (Agg, En, IV, BV)): continue      # references to rvalue temporaries held by value
                    raise Inconclusive('deref of %r' % (v,))
                fr = self.frame_of(v.act)
                v = self.project(fr, fr.get(v.local), v.proj)
            elif p[0] == 'field':
                if isinstance(v, Agg):
                    if p[1] >= len(v.f): raise Inconclusive('field %d of %r' % (p[1], v))
                    v = v.f[p[1]]
                elif isinstance(v, Opaque): v = Opaque('field')
                elif isinstance(v, Closure): v = v.caps[p[1]]
                elif hasattr(v, 'field'): v = v.field(p[1])
                else: raise Inconclusive('field of %r' % (v,))
            elif p[0] == 'downcast':
                if isinstance(v, Opaque): v = Agg([Opaque('f')] * 8); continue
                if not isinstance(v, En): raise Inconclusive('downcast of %r' % (v,))
                k = self.variant_index(v, p[1])
                if k not in v.v: raise Inconclusive('downcast to absent variant %s of %r' % (p[1], v))
                v = Agg(v.v[k])
            elif p[0] in ('index', 'cindex'):
                if hasattr(v, 'is_strlike') or isinstance(v, StrLit):
                    from . import strings
                    v = strings.index_project(self, v, frame[p[1]] if p[0] == 'index' else mk_int(p[1], 'usize')); continue
                if p[0] == 'index':
                    idx = frame[p[1]]
                    if idx.const() is None:
                        if isinstance(v, Agg) and all(isinstance(x, IV) for x in v.f):
                            lo = max(idx.lo, 0); hi = min(idx.hi, len(v.f) - 1)
                            t = v.f[hi].t
                            for k in range(hi - 1, lo - 1, -1): t = z3.If(idx.t == k, v.f[k].t, t)
                            v = IV(t, v.f[0].ty, min(x.lo for x in v.f[lo:hi + 1]), max(x.hi for x in v.f[lo:hi + 1])); continue
                        raise Inconclusive('symbolic index')
                    k = idx.const()
                else: k = p[1]
                if not isinstance(v, Agg): raise Inconclusive('index of %r' % (v,))
                v = v.f[k]
        return v

    def write(self, frame, place, val):
        base, proj = place
        if not proj:
            frame[base] = val; return
        # split at the last deref
        for i in range(len(proj) - 1, -1, -1):
            if proj[i][0] == 'deref':
                r = self.project(frame, frame.get(base), proj[:i])
                if not isinstance(r, Ref): raise Inconclusive('write through non-ref %r' % (r,))
                return self.write_ref(r, proj[i + 1:], val)
        frame[base] = self.updated(frame, frame.get(base), proj, val)

    def write_ref(self, r, proj, val):
        fr = self.frame_of(r.act)
        full = r.proj + list(proj)
        # resolve nested derefs inside the reference's own projection
        for i in range(len(full) - 1, -1, -1):
            if full[i][0] == 'deref':
                r2 = self.project(fr, fr.get(r.local), full[:i])
                if not isinstance(r2, Ref): raise Inconclusive('write through non-ref')
                return self.write_ref(r2, full[i + 1:], val)
        cur_act = self.ctx.act_stack[-1] if self.ctx.act_stack else None
        if r.act != cur_act and not z3.is_true(self.ctx.cur_guard):
            old = self.project(fr, fr.get(r.local), full)
            if old is not None:
                wg = self.ctx.cur_guard
                cg = fr.get('__cg')
                if cg is not None and not z3.is_true(cg):
                    # the target activation is suspended under cg and is only ever resumed under conditions implying cg:
                    # conjuncts of the current path condition that cg already contains need not guard the write
                    ids = {x.get_id() for x in _conj(cg)}
                    wg = zand(*[x for x in _conj(wg) if x.get_id() not in ids])
                if z3.is_true(wg): old = None
            if old is not None:
                try: val = merge(BV(wg), val, old)
                except MergeFail as e: raise Inconclusive('guarded write: %s' % e)
        if not full: fr[r.local] = val
        else: fr[r.local] = self.updated(fr, fr.get(r.local), full, val)

    def updated(self, frame, cur, proj, val):
        if not proj: return val
        p = proj[0]
        if p[0] == 'field':
            if cur is None: cur = Agg([None] * (p[1] + 1))
            if isinstance(cur, Agg):
                f = list(cur.f)
                while len(f) <= p[1]: f.append(None)
                f[p[1]] = self.updated(frame, f[p[1]], proj[1:], val); return Agg(f, cur.kind)
        if p[0] == 'downcast':
            k = self.variant_index(cur, p[1]) if isinstance(cur, En) else None
            if isinstance(cur, En):
                v = dict(cur.v); inner = self.updated(frame, Agg(v.get(k, [])), proj[1:], val)
                v[k] = inner.f; return En(cur.disc, v, cur.ty)
            if cur is None:
                # construction by parts: (_x as Variant).i = ..; discriminant(_x) = k
                g = self.variant_global.get(p[1])
                if g and len(g) == 1:
                    k = next(iter(g)); inner = self.updated(frame, Agg([]), proj[1:], val)
                    return En(mk_int(k, 'isize'), {k: inner.f})
        if p[0] in ('index', 'cindex') and isinstance(cur, Agg):
            k = p[1] if p[0] == 'cindex' else frame[p[1]].const()
            if k is None: raise Inconclusive('symbolic index write')
            f = list(cur.f); f[k] = self.updated(frame, f[k], proj[1:], val); return Agg(f, cur.kind)
        raise Inconclusive('write proj %r on %r' % (proj, cur))

    # ---- operands
    def operand(self, frame, s):
        s = s.strip()
        if s.startswith('copy ') or s.startswith('move '):
            return self.read(frame, self.parse_place(s[5:]))
        if s.startswith('const '): return self.literal(s[6:])
        if s.startswith('no_retag '): return self.operand(frame, s[9:])
        if re.match(r'^[<\w][\w:<>, &\[\];()\'{}#@./-]*$', s) and '::' in s: return FnPtr(s)      # a function item passed by value
        raise Inconclusive('operand? ' + s)

    # ---- integer operations
    def cmp_iv(self, op, a, b):
        if a.const() is not None and b.const() is not None:
            x, y = a.const(), b.const()
            return mk_bool({'Eq': x == y, 'Ne': x != y, 'Lt': x < y, 'Le': x <= y, 'Gt': x > y, 'Ge': x >= y}[op])
        if op == 'Lt' and a.hi < b.lo: return mk_bool(True)
        if op == 'Lt' and a.lo >= b.hi: return mk_bool(False)
        if op == 'Le' and a.hi <= b.lo: return mk_bool(True)
        if op == 'Le' and a.lo > b.hi: return mk_bool(False)
        if op == 'Gt' and a.lo > b.hi: return mk_bool(True)
        if op == 'Gt' and a.hi <= b.lo: return mk_bool(False)
        if op == 'Ge' and a.lo >= b.hi: return mk_bool(True)
        if op == 'Ge' and a.hi < b.lo: return mk_bool(False)
        if op == 'Eq' and (a.hi < b.lo or a.lo > b.hi): return mk_bool(False)
        if op == 'Ne' and (a.hi < b.lo or a.lo > b.hi): return mk_bool(True)
        t = {'Eq': a.t == b.t, 'Ne': a.t != b.t, 'Lt': a.t < b.t, 'Le': a.t <= b.t, 'Gt': a.t > b.t, 'Ge': a.t >= b.t}[op]
        r = BV(t); r.cmp = (op, a, b); return r

    def binop(self, op, a, b):
        ctx = self.ctx
        if op in ('Eq', 'Ne', 'Lt', 'Le', 'Gt', 'Ge'):
            if isinstance(a, BV):
                if a.c is not None and b.c is not None:
                    return mk_bool((a.c == b.c) if op == 'Eq' else (a.c != b.c))
                return BV({'Eq': a.t == b.t, 'Ne': a.t != b.t}[op])
            if not isinstance(a, IV) or not isinstance(b, IV): raise Inconclusive('compare of %r %r' % (a, b))
            return self.cmp_iv(op, a, b)
        if op in ('BitAnd', 'BitOr', 'BitXor') and isinstance(a, BV):
            if op == 'BitAnd':
                if a.c is False or b.c is False: return mk_bool(False)
                if a.c is True: return b
                if b.c is True: return a
                return BV(z3.And(a.t, b.t))
            if op == 'BitOr':
                if a.c is True or b.c is True: return mk_bool(True)
                if a.c is False: return b
                if b.c is False: return a
                return BV(z3.Or(a.t, b.t))
            return bv_of(z3.Xor(a.t, b.t))
        if not isinstance(a, IV) or not isinstance(b, IV): raise Inconclusive('binop %s of %r %r' % (op, a, b))
        ty = a.ty
        base = op.replace('WithOverflow', '').replace('Unchecked', '')
        if base in ('Add', 'Sub', 'Mul'):
            if base == 'Add': t = a.t + b.t; lo = a.lo + b.lo; hi = a.hi + b.hi
            elif base == 'Sub': t = a.t - b.t; lo = a.lo - b.hi; hi = a.hi - b.lo
            else:
                if a.const() is None and b.const() is None:
                    bid = b.t.get_id(); aid = a.t.get_id()
                    if bid in ctx.cases or aid in ctx.cases:
                        if aid in ctx.cases and bid not in ctx.cases: a, b = b, a; bid = aid
                        cs = ctx.cases[bid]; t = a.t * cs[-1][1]
                        for cnd, v in reversed(cs[:-1]): t = z3.If(cnd, a.t * v, t)
                    else:
                        # one factor is an if-then-else over constants (a sign, a unit size): distribute the product over its leaves
                        def leaves(t, n=[0]):
                            if z3.is_int_value(t): return [(None, t.as_long())]
                            if z3.is_app_of(t, z3.Z3_OP_ITE) and n[0] < 16:
                                n[0] += 1
                                l1 = leaves(t.arg(1), n); l2 = leaves(t.arg(2), n)
                                if l1 is None or l2 is None: return None
                                c = t.arg(0)
                                return [(c if g is None else z3.And(c, g), v) for g, v in l1] + [(z3.Not(c) if g is None else z3.And(z3.Not(c), g), v) for g, v in l2]
                            return None
                        lb = leaves(b.t, [0]); la = None if lb is not None else leaves(a.t, [0])
                        if lb is None and la is not None: a, b = b, a; lb = la
                        if lb is None:
                            # a factor with a small value range: case split on its value
                            if b.hi - b.lo > 16 and a.hi - a.lo <= 16: a, b = b, a
                            if b.hi - b.lo <= 16: lb = [(b.t == v, v) for v in range(b.lo, b.hi + 1)]
                        if lb is None: raise Inconclusive('nonlinear multiplication of %r and %r' % (a, b))
                        t = a.t * lb[-1][1]
                        for cnd, v in reversed(lb[:-1]): t = z3.If(cnd, a.t * v, t)
                else: t = a.t * b.t
                c = [a.lo * b.lo, a.lo * b.hi, a.hi * b.lo, a.hi * b.hi]; lo = min(c); hi = max(c)
            if lo == hi: t = z3.IntVal(lo)
            tlo, thi = ty_range(ty)
            if op.endswith('WithOverflow'):
                if lo >= tlo and hi <= thi: ovf = mk_bool(False)
                elif hi < tlo or lo > thi: ovf = mk_bool(True)
                else: ovf = BV(z3.Or(t < tlo, t > thi))
                return Agg([wrap(ctx, t, lo, hi, ty), ovf])
            return wrap(ctx, t, lo, hi, ty)
        if op in ('Div', 'Rem'):
            c = b.const()
            if c is None:
                bid = b.t.get_id()
                if bid in ctx.cases and a.const() is not None:
                    x = a.const(); cs = ctx.cases[bid]
                    def tdiv(x, v):
                        q = abs(x) // abs(v) * (1 if (x >= 0) == (v > 0) else -1); return q if op == 'Div' else x - q * v
                    vals = [(cnd, tdiv(x, v)) for cnd, v in cs]
                    t = z3.IntVal(vals[-1][1])
                    for cnd, v in reversed(vals[:-1]): t = z3.If(cnd, v, t)
                    r = IV(t, ty, min(v for _, v in vals), max(v for _, v in vals)); ctx.cases[r.t.get_id()] = vals; ctx.keep.append(r.t); return r
                raise Inconclusive('division by a symbolic value')
            if c == 0: raise Inconclusive('division by zero constant')
            if c < 0:
                # a / c == -(a / -c) (truncating); a % c == a % -c
                pos = mk_int(-c, ty)
                if op == 'Rem': return self.binop('Rem', a, pos)
                q = self.binop('Div', a, pos)
                return wrap(ctx, -q.t, -q.hi, -q.lo, ty)
            if a.const() is not None:
                x = a.const(); q = abs(x) // c * (1 if x >= 0 else -1); r = x - q * c
                return mk_int(q if op == 'Div' else r, ty)
            q, r, qlo, qhi = fdiv(ctx, a, c)
            if a.lo >= 0:
                return IV(q, ty, qlo, qhi) if op == 'Div' else IV(r, ty, 0, min(c - 1, a.hi))
            adj = z3.And(a.t < 0, r != 0)
            def tq(x): return x // c if x >= 0 else -((-x) // c)
            if op == 'Div': return IV(z3.If(adj, q + 1, q), ty, tq(a.lo), tq(a.hi))
            return IV(z3.If(adj, r - c, r), ty, max(-(c - 1), a.lo), min(c - 1, a.hi) if a.hi >= 0 else 0)
        if op in ('Shl', 'Shr', 'BitAnd', 'BitOr', 'BitXor'):
            x, y = a.const(), b.const()
            if x is not None and y is not None:
                v = {'Shl': x << y, 'Shr': x >> y, 'BitAnd': x & y, 'BitOr': x | y, 'BitXor': x ^ y}[op]
                return wrap(ctx, z3.IntVal(v), v, v, ty)
            if op == 'Shl' and y is not None and 0 <= y < 128:
                return wrap(ctx, a.t * (1 << y), a.lo * (1 << y), a.hi * (1 << y), ty)
            if op == 'Shr' and y is not None and 0 <= y < 128:
                q, r, qlo, qhi = fdiv(ctx, a, 1 << y); return IV(q, ty, qlo, qhi)
            if op == 'BitAnd' and y is not None and y >= 0 and (y & (y + 1)) == 0 and a.lo >= 0:
                q, r, _, _ = fdiv(ctx, a, y + 1); return IV(r, ty, 0, min(y, a.hi))
            if op == 'BitOr' and a.lo >= 0 and b.lo >= 0:
                # disjoint-bit or: a is a multiple of 2^k and b < 2^k
                for (p, q_) in ((a, b), (b, a)):
                    k = q_.hi.bit_length()
                    if getattr(p, 't', None) is not None and self.is_multiple(p, 1 << k):
                        return IV(p.t + q_.t, ty, p.lo + q_.lo, p.hi + q_.hi)
            raise Inconclusive('bit operation %s on symbolic operands' % op)
        if op == 'Cmp':
            return IV(z3.If(a.t < b.t, -1, z3.If(a.t == b.t, 0, 1)), 'i8', -1, 1)
        if op == 'Offset':
            raise Inconclusive('pointer offset')
        raise Inconclusive('binop ' + op)

    def is_multiple(self, p, m):
        return getattr(self, 'mult_of', {}).get(p.t.get_id(), 1) % m == 0

    def cast(self, v, ty):
        if isinstance(v, BV):
            return IV(z3.If(v.t, 1, 0), ty, 0, 1) if v.c is None else mk_int(int(v.c), ty)
        if not isinstance(v, IV): raise Inconclusive('cast of %r' % (v,))
        r = wrap(self.ctx, v.t, v.lo, v.hi, ty)
        if r.t is v.t or r.t.eq(v.t):
            r = IV(v.t, ty, r.lo, r.hi)
            if v.t.get_id() in self.ctx.cases: pass
        return r

    # ---- rvalues
    BINOPS = ('Add', 'Sub', 'Mul', 'Div', 'Rem', 'Eq', 'Ne', 'Lt', 'Le', 'Gt', 'Ge', 'BitAnd', 'BitOr', 'BitXor', 'Shl', 'Shr', 'Cmp',
              'AddWithOverflow', 'SubWithOverflow', 'MulWithOverflow', 'AddUnchecked', 'SubUnchecked', 'MulUnchecked', 'Offset')

    def rvalue(self, frame, s, lhs_ty=None):
        s = s.strip()
        m = re.match(r'^(\w+)\((.*)\)$', s)
        if m and m.group(1) in self.BINOPS:
            a, b = [self.operand(frame, x) for x in split_top(m.group(2))]
            return self.binop(m.group(1), a, b)
        if m and m.group(1) == 'Not':
            a = self.operand(frame, m.group(2))
            if isinstance(a, BV):
                if a.c is not None: return mk_bool(not a.c)
                r = BV(z3.Not(a.t))
                if a.cmp:
                    op, x, y = a.cmp
                    r.cmp = ({'Lt': 'Ge', 'Ge': 'Lt', 'Le': 'Gt', 'Gt': 'Le', 'Eq': 'Ne', 'Ne': 'Eq'}[op], x, y)
                return r
            if isinstance(a, IV):   # bitwise not: !x == -x-1 (signed) / MAX-x (unsigned)
                lo, hi = ty_range(a.ty)
                if lo < 0: return IV(-a.t - 1, a.ty, -a.hi - 1, -a.lo - 1)
                return IV(hi - a.t, a.ty, hi - a.hi, hi - a.lo)
            raise Inconclusive('Not of %r' % (a,))
        if m and m.group(1) == 'Neg':
            a = self.operand(frame, m.group(2)); return wrap(self.ctx, -a.t, -a.hi, -a.lo, a.ty)
        if m and m.group(1) == 'discriminant':
            v = self.read(frame, self.parse_place(m.group(2)))
            v = self.deref(v)
            if isinstance(v, En): return v.disc
            if isinstance(v, IV): return v      # fieldless enum represented by its discriminant
            raise Inconclusive('discriminant of %r' % (v,))
        if m and m.group(1) == 'Len':
            v = self.deref(self.read(frame, self.parse_place(m.group(2))))
            if isinstance(v, Agg): return mk_int(len(v.f), 'usize')
            if hasattr(v, 'length'): return v.length()
            if isinstance(v, StrLit): return mk_int(len(v.b), 'usize')
            raise Inconclusive('Len of %r' % (v,))
        if m and m.group(1) == 'PtrMetadata':
            v = self.deref(self.operand(frame, m.group(2)))
            if isinstance(v, Agg): return mk_int(len(v.f), 'usize')
            if hasattr(v, 'length'): return v.length()
            if isinstance(v, StrLit): return mk_int(len(v.b), 'usize')
            raise Inconclusive('PtrMetadata of %r' % (v,))
        m = re.match(r'^(.*) as (.+?) \((PointerCoercion.*|Transmute|PtrToPtr|Subtype)\)$', s)
        if m: return self.operand(frame, m.group(1))
        m = re.match(r'^(.*) as ([\w]+) \((\w+)\)$', s)
        if m:
            return self.cast(self.operand(frame, m.group(1)), m.group(2))
        if s.startswith('&'):
            t = s[1:].strip()
            for pre in ('mut ', 'raw const ', 'raw mut ', 'fake shallow ', 'fake ', '(fake shallow) ', '(fake) '):
                if t.startswith(pre): t = t[len(pre):]
            base, proj = self.parse_place(t)
            # &(*_r).proj  -> reborrow
            for i in range(len(proj) - 1, -1, -1):
                if proj[i][0] == 'deref':
                    r = self.project(frame, frame.get(base), proj[:i])
                    if isinstance(r, Ref): return Ref(r.act, r.local, r.proj + proj[i + 1:])
                    if i == len(proj) - 1: return r     # by-value model of a reference
                    return self.project(frame, frame.get(base), proj)
            return Ref(frame['__act'], base, proj)
        if s.startswith(('copy ', 'move ', 'const ', 'no_retag ')):
            return self.operand(frame, s)
        if s.startswith('(') and s.endswith(')'):
            return Agg([self.operand(frame, x) for x in split_top(s[1:-1])])
        if s.startswith('[') and s.endswith(']'):
            inner = s[1:-1]
            parts = split_top(inner, ';')
            if len(parts) == 2 and not inner.startswith(('copy', 'move')) or (len(parts) == 2 and ';' in inner):
                if len(parts) == 2:
                    v = self.operand(frame, parts[0]); cnt = self.literal(re.sub(r'^const ', '', parts[1])) if parts[1].startswith('const') else None
                    n = cnt.const() if cnt is not None else int(parts[1])
                    return Agg([v] * n, 'array')
            return Agg([self.operand(frame, x) for x in split_top(inner)], 'array')
        # closures
        m = re.match(r'^\{closure@(.*?)\}(?: \{(.*)\})?$', s)
        if m:
            caps = []
            if m.group(2) and m.group(2).strip():
                caps = [self.operand(frame, x.split(':', 1)[1]) for x in split_top(m.group(2))]
            return Closure('{closure@' + m.group(1) + '}', caps)
        # struct aggregate  Path { f: op, .. }
        m = re.match(r'^([\w:<>, \'&\[\];()]+?) \{ (.*) \}$', s)
        if m:
            name = self.strip_generics(m.group(1)).split('::')
            fields = [self.operand(frame, x.split(':', 1)[1]) for x in split_top(m.group(2))]
            # enum struct-variant?
            if len(name) >= 2 and name[-2] in self.enums and name[-1] in self.enums[name[-2]]:
                k = self.enums[name[-2]].index(name[-1]); return En(mk_int(k, 'isize'), {k: fields}, name[-2])
            return Agg(fields, 'struct:' + name[-1])
        m = re.match(r'^([\w:<>, \'&\[\];()]+?) \{ \}$', s) or re.match(r'^([\w:<>, \'&\[\];()]+?) \{\}$', s)
        if m: return Agg([], 'struct:' + m.group(1))
        # enum tuple variant / unit variant / tuple struct
        m = None
        if s.endswith(')'):
            d = 0
            for i in range(len(s) - 1, -1, -1):
                if s[i] == ')': d += 1
                elif s[i] == '(':
                    d -= 1
                    if d == 0:
                        m = (s[:i], s[i + 1:-1]); break
        if m and m[0] and self.balanced(m[0]):
            name = self.strip_generics(m[0]).split('::')
            args = [self.operand(frame, x) for x in split_top(m[1])]
            if len(name) >= 2 and name[-2] in self.enums and name[-1] in self.enums[name[-2]]:
                k = self.enums[name[-2]].index(name[-1]); return En(mk_int(k, 'isize'), {k: args}, name[-2])
            return Agg(args, 'struct:' + name[-1])
        name = self.strip_generics(s).split('::')
        if len(name) >= 2 and name[-2] in self.enums and name[-1] in self.enums[name[-2]]:
            k = self.enums[name[-2]].index(name[-1]); return En(mk_int(k, 'isize'), {k: []}, name[-2])
        raise Inconclusive('rvalue? ' + s)

    # ---- CFG helpers
    TARGET_RE = re.compile(r'(?:return: |success: |-?\d+: |otherwise: |goto -> |-> )(bb\d+)')
    def successors(self, f):
        if f.succ is not None: return f.succ
        succ = {}
        for b, st in f.blocks.items():
            term = st[-1]
            tg = self.TARGET_RE.findall(term)
            uw = re.findall(r'unwind: (bb\d+)', term)
            succ[b] = [t for t in tg if t not in uw and t in f.blocks]
        f.succ = succ
        return succ

    def rpo(self, f, entry='bb0'):
        if f.rpo_idx is not None and entry == 'bb0': return f.rpo_idx
        succ = self.successors(f)
        order = []; seen = set()
        stack = [(entry, iter(succ.get(entry, [])))]; seen.add(entry)
        while stack:
            b, it = stack[-1]
            nxt = None
            for t in it:
                if t not in seen:
                    nxt = t; break
            if nxt is None:
                order.append(b); stack.pop()
            else:
                seen.add(nxt); stack.append((nxt, iter(succ.get(nxt, []))))
        order.reverse()
        idx = {b: i for i, b in enumerate(order)}
        if entry == 'bb0': f.rpo_idx = idx
        return idx

    def loops(self, f):
        if f.loopinfo is not None: return f.loopinfo
        rpo = self.rpo(f); succ = self.successors(f); pred = {}
        for b in succ:
            if b not in rpo: continue
            for t in succ[b]:
                if t in rpo: pred.setdefault(t, []).append(b)
        bodies = {}
        for b in succ:
            if b not in rpo: continue
            for t in succ[b]:
                if t in rpo and rpo[t] <= rpo[b]:     # back edge b -> t
                    body = bodies.setdefault(t, {t}); stack = [b]
                    while stack:
                        x = stack.pop()
                        if x in body: continue
                        body.add(x); stack += pred.get(x, [])
        # innermost header per block; nesting chain
        member = {}
        for h, body in sorted(bodies.items(), key=lambda kv: -len(kv[1])):
            for x in body: member[x] = h      # smaller (inner) loops overwrite later
        parent = {}
        for h in bodies:
            outer = [h2 for h2, b2 in bodies.items() if h2 != h and h in b2]
            parent[h] = min(outer, key=lambda h2: len(bodies[h2])) if outer else None
        f.loopinfo = {'member': member, 'bodies': bodies, 'parent': parent}
        return f.loopinfo

    # ---- path-sensitive interval refinement
    def guard_ids(self):
        g = self.ctx.cur_guard
        key = g.get_id()
        c = getattr(self, '_gid_cache', None)
        if c is None or c[0] != key or not c[2].eq(g):
            pos = set(); neg = set()
            for x in _conj(g):
                if z3.is_not(x): neg.add(x.arg(0).get_id())
                else: pos.add(x.get_id())
            c = self._gid_cache = (key, (pos, neg), g)
        return c[1]

    def entailed(self, c):
        """does the current path condition (with the argument domains) entail c (True) / its negation (False)? None: neither, or no
        answer within 200 ms. A solver query used only to simplify a stored value under its path condition (sound either way)."""
        g = self.ctx.cur_guard
        key = (g.get_id(), c.get_id())
        cache = self.__dict__.setdefault('_ent_cache', {})
        if key in cache and cache[key][1].eq(c) and cache[key][2].eq(g): return cache[key][0]
        s = self.__dict__.get('_ent_solver')
        if s is None:
            s = self._ent_solver = z3.Solver(); s.set('timeout', 200)
            for d in getattr(self, 'dom_constraints', []): s.add(d)
            self._ent_gid = None
        if self._ent_gid != g.get_id():
            if self._ent_gid is not None: s.pop()
            s.push(); s.add(g); self._ent_gid = g.get_id(); self._ent_g = g
        r = None
        if s.check(z3.Not(c)) == z3.unsat: r = True
        elif s.check(c) == z3.unsat: r = False
        cache[key] = (r, c, g)
        self.ctx.entail_queries = getattr(self.ctx, 'entail_queries', 0) + 1
        return r

    def under_guard(self, t):
        """resolve ite(c, x, y) whose condition is decided by the conjuncts of the current path guard"""
        n = 0
        while z3.is_app_of(t, z3.Z3_OP_ITE) and n < 64:
            c, x, y = t.children()
            pos, neg = self.guard_ids()
            cs = _conj(c)
            if all((not z3.is_not(k) and k.get_id() in pos) or (z3.is_not(k) and k.arg(0).get_id() in neg) for k in cs): t = x
            elif any((not z3.is_not(k) and k.get_id() in neg) or (z3.is_not(k) and k.arg(0).get_id() in pos) for k in cs): t = y
            else:
                r = self.entailed(c)
                if r is True: t = x
                elif r is False: t = y
                else: break
            n += 1
        return t

    def view(self, st, v):
        if self.opts.get('resolve_ite') and not z3.is_true(self.ctx.cur_guard):
            if isinstance(v, IV) and z3.is_app_of(v.t, z3.Z3_OP_ITE):
                t2 = self.under_guard(v.t)
                if t2 is not v.t:
                    t2s = z3.simplify(t2)
                    v = mk_int(t2s.as_long(), v.ty) if z3.is_int_value(t2s) else IV(t2, v.ty, v.lo, v.hi)
            elif hasattr(v, 'is_strlike') and (z3.is_app_of(v.start.t, z3.Z3_OP_ITE) or z3.is_app_of(v.len.t, z3.Z3_OP_ITE)):
                v = type(v)(v.buf, self.view(st, v.start), self.view(st, v.len))
        if isinstance(v, IV) and st.get('__ref'):
            r = st['__ref'].get(v.t.get_id())
            if r and r[2].eq(v.t):
                lo = max(v.lo, r[0]); hi = min(v.hi, r[1])
                if lo > hi: return v
                if (lo, hi) != (v.lo, v.hi): return IV(v.t, v.ty, lo, hi)
        return v

    def refine_branch(self, st, bv, truth):
        cmpi = getattr(bv, 'cmp', None)
        if not cmpi: return
        op, a, b = cmpi
        if not truth: op = {'Lt': 'Ge', 'Ge': 'Lt', 'Le': 'Gt', 'Gt': 'Le', 'Eq': 'Ne', 'Ne': 'Eq'}[op]
        st['__ref'] = dict(st['__ref'])
        def tighten(x, lo, hi):
            k = x.t.get_id(); cur = st['__ref'].get(k)
            if cur is None or not cur[2].eq(x.t): cur = (x.lo, x.hi, x.t)
            st['__ref'][k] = (max(cur[0], lo if lo is not None else cur[0]), min(cur[1], hi if hi is not None else cur[1]), x.t)
        a = self.view(st, a); b = self.view(st, b)
        if op == 'Lt': tighten(a, None, b.hi - 1); tighten(b, a.lo + 1, None)
        elif op == 'Le': tighten(a, None, b.hi); tighten(b, a.lo, None)
        elif op == 'Gt': tighten(a, b.lo + 1, None); tighten(b, None, a.hi - 1)
        elif op == 'Ge': tighten(a, b.lo, None); tighten(b, None, a.hi)
        elif op == 'Eq':
            tighten(a, b.lo, b.hi); tighten(b, a.lo, a.hi)
        elif op == 'Ne':
            if b.const() is not None:
                if a.lo == b.const(): tighten(a, a.lo + 1, None)
                elif a.hi == b.const(): tighten(a, None, a.hi - 1)

    def merge_states(self, states):
        if len(states) == 1: return states[0]
        gall = self.join_all([g for g, _ in states])
        g0, e0 = states[0]
        for g1, e1 in states[1:]:
            e = {}
            c = bv_of(g1)
            for k in set(e0) | set(e1):
                if k.startswith('__'): continue
                a = e1.get(k); b = e0.get(k)
                if a is None: e[k] = b
                elif b is None: e[k] = a
                else:
                    # each side is viewed under its own path condition (the ite resolution of view() reads ctx.cur_guard)
                    saved = self.ctx.cur_guard
                    try:
                        self.ctx.cur_guard = g1; va = self.view(e1, a)
                        self.ctx.cur_guard = g0; vb = self.view(e0, b)
                    finally: self.ctx.cur_guard = saved
                    try: e[k] = merge(c, va, vb)
                    except MergeFail:
                        e[k] = None     # dead temporaries of differing shapes; a later read fails closed
            e['__fn'] = e0['__fn']; e['__act'] = e0['__act']
            # keep refinements valid in both
            r0 = e0.get('__ref') or {}; r1 = e1.get('__ref') or {}
            ref = {}
            for k in set(r0) & set(r1):
                if r0[k][2].eq(r1[k][2]): ref[k] = (min(r0[k][0], r1[k][0]), max(r0[k][1], r1[k][1]), r0[k][2])
            e['__ref'] = ref
            g0 = join_guard(g0, g1); e0 = e
        return (gall if gall is not None else g0), e0

    def join_all(self, gs):
        """guards that share a common conjunction and differ by the literals of one exhaustive switch -> the common part"""
        if len(gs) < 3 or not self.ctx.exhaustive: return None
        cl = [_conj(g) for g in gs]
        common = set(x.get_id() for x in cl[0])
        for c in cl[1:]: common &= set(x.get_id() for x in c)
        rest = []
        for c in cl:
            r = [x for x in c if x.get_id() not in common]
            if len(r) != 1: return None
            rest.append(r[0].get_id())
        if frozenset(rest) in set(self.ctx.exhaustive) and len(set(rest)) == len(rest):
            return zand(*[x for x in cl[0] if x.get_id() in common])
        return None

    # ---- calls
    def call_body(self, f, args, guard, entry='bb0', frame_init=None, stop_at=None, stops=None):
        """execute crate function f under guard; returns (value, returns-guard)"""
        ctx = self.ctx
        self.depth += 1
        if self.depth > 60: raise Inconclusive('call depth')
        ctx.reached.add(f.name)
        act = ctx.new_act()
        frame = {'__fn': f.name, '__ref': {}, '__act': act}
        if frame_init: frame.update(frame_init)
        for p, a in zip(f.params, args): frame[p] = a
        if not hasattr(ctx, 'act_stack'): ctx.act_stack = []
        ctx.act_stack.append(act)
        ctx.frames[act] = frame
        drops0 = ctx.drops
        rpo = self.rpo(f, entry) if entry != 'bb0' else self.rpo(f)
        loops = self.loops(f)
        member = loops['member']; parent = loops['parent']
        K = self.loop_unwind.get(f.name.split('::')[-1], self.unwind)
        BIG = 10 ** 9
        def chain(b):
            hs = []; h = member.get(b)
            while h is not None: hs.append(h); h = parent.get(h)
            return hs[::-1]         # outermost first
        def key(bi):
            b, its = bi
            hs = chain(b); k = []
            for h, it in zip(hs, its): k += [rpo.get(h, BIG), it]
            k += [rpo.get(b, BIG)]
            return tuple(k)
        pending = {(entry, tuple(0 for _ in chain(entry))): [(guard, frame)]}
        outs = []
        steps = 0
        while pending:
            # lowest key first; tuples compared lexicographically with padding
            bbi = min(pending, key=lambda x: key(x))
            g, fr = self.merge_states(pending.pop(bbi))
            ctx.frames[act] = fr
            bb, its = bbi
            hs_cur = chain(bb)
            def go(t, gg, ff, bb=bb, its=its, hs_cur=hs_cur):
                if z3.is_false(gg): return
                if stop_at and t in stop_at:
                    # CFG cut: record the state arriving at t over the edge bb -> t and do not continue
                    ctx.frames[act] = ff
                    stops.append({'to': t, 'from': bb, 'guard': gg, 'frame': dict(ff), 'act': act})
                    ctx.drops += 1
                    return
                hs_t = chain(t); nits = []
                for i, h in enumerate(hs_t):
                    if i < len(hs_cur) and hs_cur[i] == h:
                        it = its[i]
                        if t == h and i == len(hs_t) - 1 and rpo.get(bb, BIG) >= rpo.get(t, BIG):
                            it += 1          # back edge
                        nits.append(it)
                    else: nits.append(0)
                if nits and max(nits) > K:
                    ctx.unwound.append((gg, f.name + ':' + bb + '->' + t)); ctx.drops += 1; return
                pending.setdefault((t, tuple(nits)), []).append((gg, ff))
            steps += 1
            if steps > 20000: raise Inconclusive('step limit in ' + f.name)
            stmts = f.blocks[bb]
            ctx.cur_guard = g
            for s in stmts[:-1]:
                try: self.stmt(fr, s, f)
                except Inconclusive as e:
                    if ' [at ' not in str(e): raise Inconclusive('%s [at %s:%s `%s`]' % (e, f.name, bb, s[:160]))
                    raise
            term = stmts[-1].rstrip(';')
            site = '%s:%s' % (f.name, bb)
            if term.startswith('goto -> '): go(term[8:], g, fr); continue
            if term == 'return':
                cut = self.opts.get('cut_err_returns')
                if cut and re.search(cut, f.name):
                    rv = fr.get('_0')
                    if isinstance(rv, En) and rv.disc.const() == 1 and ('Result' in f.ret):
                        # stated cut: an error return of the reader propagates to the caller through `?` without further computation
                        ctx.cut_err = getattr(ctx, 'cut_err', 0) + 1; ctx.drops += 1
                        continue
                outs.append((g, fr)); continue
            if term == 'unreachable': ctx.drops += 1; continue
            if term.startswith('resume') or term.startswith('abort'): ctx.drops += 1; continue
            m = re.match(r'^switchInt\((.*)\) -> \[(.*)\]$', term)
            if m:
                v = self.operand(fr, m.group(1)); arms = [x.split(': ') for x in split_top(m.group(2))]
                self.switch(v, arms, g, fr, go); continue
            m = re.match(r'^assert\((!?)(.*?), "(.*?)".*\) -> \[success: (bb\d+), unwind.*\]$', term)
            if m:
                c = self.operand(fr, m.group(2))
                if m.group(1) == '!': bad = c
                else:
                    bad = BV(znot(c.t), None if c.c is None else (not c.c))
                    if c.cmp:
                        op, x, y = c.cmp; bad.cmp = ({'Lt': 'Ge', 'Ge': 'Lt', 'Le': 'Gt', 'Gt': 'Le', 'Eq': 'Ne', 'Ne': 'Eq'}[op], x, y)
                if bad.c is True:
                    ctx.panics.append((g, site, m.group(3)[:60])); ctx.drops += 1; continue
                ff = fr
                if bad.c is None:
                    ctx.drops += 1
                    ctx.panics.append((zand(g, bad.t), site, m.group(3)[:60])); g = zand(g, znot(bad.t))
                    ff = dict(fr); self.refine_branch(ff, bad, False)
                go(m.group(4), g, ff); continue
            m = re.match(r'^drop\(.*\) -> \[return: (bb\d+), unwind.*\]$', term)
            if m: go(m.group(1), g, fr); continue
            m = re.match(r'^falseEdge -> \[real: (bb\d+), imaginary: bb\d+\]$', term) or re.match(r'^falseUnwind -> \[real: (bb\d+), unwind.*\]$', term)
            if m: go(m.group(1), g, fr); continue
            m = re.match(r'^(?:(.*?) = )?(.*)\) -> (?:\[return: (bb\d+), unwind.*\]|unwind.*|bb\d+)$', term)
            if m:
                dest, callee, argstr, ret = self.split_call(term)
                cargs = [self.operand(fr, a) for a in split_top(argstr)]
                fr['__cg'] = g          # the path condition this activation is suspended under while the callee runs
                val, rg = self.call(callee, cargs, g, site)
                ctx.cur_guard = g
                ctx.frames[act] = fr
                if ret is None or z3.is_false(rg): ctx.drops += 1; continue
                if not z3.is_true(rg): g = zand(g, rg); ctx.drops += 1
                if dest: self.write(fr, self.parse_place(dest), val)
                go(ret, g, fr); continue
            raise Inconclusive('terminator? ' + term)
        self.depth -= 1
        ctx.act_stack.pop()
        if not outs:
            ctx.drops += 1
            return None, F
        g, fr = self.merge_states(outs)
        ctx.frames[act] = fr
        if ctx.drops == drops0:
            g = T          # no path of this activation was cut: it returns exactly when it was entered
        elif not z3.is_true(guard):
            # returns-guard relative to the entry guard (callers conjoin it with their own guard)
            pass
        return self.view(fr, fr.get('_0', UNIT)), g

    def switch(self, v, arms, g, fr, go):
        if isinstance(v, BV):
            if v.c is not None:
                tgt = [t for k, t in arms if k != 'otherwise' and int(k) == int(v.c)]
                go(tgt[0] if tgt else [t for k, t in arms if k == 'otherwise'][0], g, fr); return
            iv = IV(z3.If(v.t, 1, 0), 'u8', 0, 1)
        elif isinstance(v, IV): iv = v
        else: raise Inconclusive('switch on %r' % (v,))
        cv = iv.const()
        if cv is not None:
            tgt = [t for k, t in arms if k != 'otherwise' and int(k) == cv]
            ow = [t for k, t in arms if k == 'otherwise']
            if tgt: go(tgt[0], g, fr)
            elif ow: go(ow[0], g, fr)
            return
        conds = []
        keys = [int(k) for k, _ in arms if k != 'otherwise']
        for k, t in arms:
            if k == 'otherwise':
                rest = [kk for kk in keys if iv.lo <= kk <= iv.hi]
                if iv.hi - iv.lo + 1 == len(set(rest)): continue
                if isinstance(v, BV): conds.append((znot(v.t) if 1 in keys else v.t, t, (v, 0 in keys), None))
                else: conds.append((znot(zor(*[iv.t == kk for kk in rest])), t, None, ('ne', rest)))
                continue
            kk = int(k)
            if kk < iv.lo or kk > iv.hi: continue
            if isinstance(v, BV): conds.append((v.t if kk == 1 else znot(v.t), t, (v, kk == 1), None))
            elif self.opts.get('resolve_ite') and z3.is_app_of(iv.t, z3.Z3_OP_ITE): conds.append((eq_const(iv.t, kk), t, None, ('eq', kk)))
            else: conds.append((iv.t == kk, t, None, ('eq', kk)))
        # arms with the same target become one literal; the literals of one switch form an exhaustive group
        bytgt = {}
        for item in conds: bytgt.setdefault(item[1], []).append(item)
        conds2 = []
        for t, items in bytgt.items():
            if len(items) == 1: conds2.append(items[0])
            else:
                vals = [it[3][1] for it in items if it[3] and it[3][0] == 'eq']
                conds2.append((zor(*[it[0] for it in items]), t, None, ('in', vals) if len(vals) == len(items) else None))
        conds = conds2
        if len(conds) > 1:
            self.ctx.exhaustive.append(frozenset(c[0].get_id() for c in conds)); self.ctx.keep += [c[0] for c in conds]
        for cnd, t, rf, ir in conds:
            ff = dict(fr)
            if rf: self.refine_branch(ff, rf[0], rf[1])
            if ir:
                ff['__ref'] = dict(ff['__ref']); key = iv.t.get_id(); cur = ff['__ref'].get(key)
                if cur is None or not cur[2].eq(iv.t): cur = (iv.lo, iv.hi, iv.t)
                if ir[0] == 'eq': ff['__ref'][key] = (ir[1], ir[1], iv.t)
                elif ir[0] == 'in': ff['__ref'][key] = (max(cur[0], min(ir[1])), min(cur[1], max(ir[1])), iv.t)
                else:
                    lo, hi = max(cur[0], iv.lo), min(cur[1], iv.hi)
                    while lo in ir[1] and lo < hi: lo += 1
                    while hi in ir[1] and hi > lo: hi -= 1
                    ff['__ref'][key] = (lo, hi, iv.t)
            go(t, zand(g, cnd), ff)

    def split_call(self, term):
        """[dest = ]callee(args) -> [return: bbN, unwind ...] | -> unwind ..."""
        m = re.search(r'\) -> (\[return: (bb\d+), unwind[^\]]*\]|unwind \w+(?: bb\d+)?|bb\d+)$', term)
        if not m: raise Inconclusive('call terminator? ' + term)
        ret = m.group(2)
        t = term[:m.start() + 1]
        dest = None
        # dest = ... : find ' = ' at depth 0 before the callee
        depth = 0
        for i, ch in enumerate(t):
            if ch in '([{<': depth += 1
            elif ch in ')]}': depth -= 1
            elif ch == '>' and t[i - 1] != '-': depth -= 1
            elif depth == 0 and t.startswith(' = ', i):
                dest = t[:i]; t = t[i + 3:]; break
        d = 0; instr = False
        for i in range(len(t) - 1, -1, -1):
            ch = t[i]
            if ch == '"' and (i == 0 or t[i - 1] != '\\'): instr = not instr
            if instr: continue
            if ch == ')': d += 1
            elif ch == '(':
                d -= 1
                if d == 0: return dest, t[:i], t[i + 1:-1], ret
        raise Inconclusive('call split ' + term)

    def stmt(self, fr, s, f):
        s = s.rstrip(';')
        if s.startswith(('StorageLive', 'StorageDead', 'nop', 'FakeRead', 'PlaceMention', 'AscribeUserType', 'Retag', 'Coverage', 'ConstEvalCounter', 'BackwardIncompatibleDropHint')): return
        m = re.match(r'^discriminant\((.*)\) = (\d+)$', s)
        if m:
            pl = self.parse_place(m.group(1)); cur = self.read(fr, pl)
            if isinstance(cur, En): self.write(fr, pl, En(mk_int(int(m.group(2)), 'isize'), cur.v, cur.ty))
            else: self.write(fr, pl, En(mk_int(int(m.group(2)), 'isize'), {int(m.group(2)): []}))
            return
        if s.startswith('assume(') or s.startswith('Assume('): return
        if ' = ' not in s: raise Inconclusive('statement? ' + s)
        lhs, rhs = s.split(' = ', 1)
        val = self.rvalue(fr, rhs)
        # enum-typed destination of a known crate enum: remember the type name
        pl = self.parse_place(lhs)
        if isinstance(val, En) and not val.ty and not pl[1]:
            ty = f.locals.get(pl[0], '')
            mm = re.match(r'^(?:[\w:]*::)?(\w+)(?:<.*>)?$', ty)
            if mm and mm.group(1) in self.enums: val.ty = mm.group(1)
        self.write(fr, pl, val)

    # ---- the call dispatcher
    def call(self, callee, args, guard, site):
        from . import models
        ctx = self.ctx
        def norm(r):
            # a model's return guard that is a ground comparison of numerals is decided here, not left to the solver
            g = fold_ground(r[1])
            return r if g is None else (r[0], T if g else F)
        for mfn in self.extra_models:
            r = mfn(self, callee, args, guard, site)
            if r is not None: return norm(r)
        r = models.std_model(self, callee, args, guard, site)
        if r is not None:
            return norm(r)
        name = self.resolve(callee)
        if name is None:
            # closure call through FnOnce/FnMut/Fn
            r = models.closure_call(self, callee, args, guard, site)
            if r is not None: return r
            raise Inconclusive('unmodelled callee: ' + callee)
        last = name.split('::')[-1]
        ab = self.abstractions.get(last)
        if ab is not None and self.in_contract and not getattr(ab, 'always', False): ab = None
        if ab is not None and ab.applies(name):
            return ab.apply(self, name, args, guard, site)
        gm = re.search(r'::<([^<>]*)>$', callee)
        if not hasattr(self, 'generic_stack'): self.generic_stack = []
        self.generic_stack.append([x.strip() for x in gm.group(1).split(',')] if gm else [])
        try:
            return self.call_body(self.fns[name], args, guard)
        finally:
            self.generic_stack.pop()
