"""SMT-LIB2 export and solver racing (cvc5, z3 5.1 `z3-new`, z3 4.8.12). First definite answer decides;
any `(error`, `unknown` or timeout is inconclusive, never success."""
import os, re, subprocess, time, threading, resource, signal, tempfile
import z3

SOLVERS = {
    'cvc5': ['cvc5', '--lang', 'smt2', '--produce-models'],
    'cvc5_di': ['cvc5', '--lang', 'smt2', '--produce-models', '--decision=internal'],
    'z3new': ['z3-new', '-smt2'],
    'z3new_a2': ['z3-new', '-smt2', 'smt.arith.solver=2'],      # the legacy simplex core: often decisive where the default stalls
    'z3': ['/usr/bin/z3', '-smt2'],
    'z3_a2': ['/usr/bin/z3', '-smt2', 'smt.arith.solver=2'],
}
PORTFOLIO = ('cvc5', 'z3new_a2', 'z3new', 'cvc5_di')
PORTFOLIO_CROSS = ('cvc5', 'z3new_a2', 'z3new', 'cvc5_di', 'z3')
MEM_LIMIT = int(os.environ.get('VERIF_SOLVER_MEM_GB', '10')) * (1 << 30)

def to_smt2(constraints, get_values=None):
    s = z3.Solver()
    for c in constraints: s.add(c)
    txt = s.to_smt2()
    txt = txt.replace('(check-sat)', '')
    out = ['(set-logic ALL)', '(set-option :produce-models true)', txt, '(check-sat)']
    if get_values:
        out.append('(get-value (%s))' % ' '.join(get_values))
    return '\n'.join(out) + '\n'

def _limits():
    resource.setrlimit(resource.RLIMIT_AS, (MEM_LIMIT, MEM_LIMIT))
    os.setsid()
    try:
        import ctypes
        ctypes.CDLL('libc.so.6').prctl(1, signal.SIGKILL)      # PR_SET_PDEATHSIG: no orphaned solvers when a check is killed
    except Exception:
        pass

class Result:
    def __init__(self, verdict, solver, secs, detail='', model=None, all_answers=None):
        self.verdict = verdict; self.solver = solver; self.secs = secs; self.detail = detail; self.model = model
        self.all_answers = all_answers or {}
    def __repr__(self): return 'Result(%s by %s in %.2fs %s)' % (self.verdict, self.solver, self.secs, self.detail)

def _classify(out):
    if '(error' in out: return 'error'
    first = out.strip().split('\n')[0].strip() if out.strip() else ''
    if first in ('sat', 'unsat'): return first
    if first == 'unknown': return 'unknown'
    return 'error'

def race(smt_path, timeout, solvers=PORTFOLIO, need_all=False):
    """run the solvers in parallel on one file. need_all: wait for every solver (cross-check) instead of first answer."""
    procs = {}
    t0 = time.time()
    for name in solvers:
        cmd = SOLVERS[name] + [smt_path]
        try:
            procs[name] = subprocess.Popen(cmd, stdout=subprocess.PIPE, stderr=subprocess.STDOUT, preexec_fn=_limits, text=True)
        except FileNotFoundError:
            pass
    answers = {}
    pending = dict(procs)
    winner = None; t_first = None
    def family(n): return 'cvc5' if n.startswith('cvc5') else 'z3'
    while pending and time.time() - t0 < timeout:
        for name, p in list(pending.items()):
            rc = p.poll()
            if rc is not None:
                out = p.stdout.read()
                cls = _classify(out)
                answers[name] = (cls, time.time() - t0, out[:300])
                del pending[name]
                if cls in ('sat', 'unsat') and winner is None:
                    winner = name; t_first = time.time() - t0
        if winner and not need_all: break
        if winner and need_all:
            fams = {family(n) for n, a in answers.items() if a[0] in ('sat', 'unsat')}
            # cross-check: a definite answer from a second solver family, waited for up to 3x the first answer + 30 s
            if len(fams) >= 2 or time.time() - t0 > 3 * t_first + 30: break
        time.sleep(0.01)
    for name, p in pending.items():
        try: os.killpg(p.pid, signal.SIGKILL)
        except Exception: pass
        try: p.wait(timeout=5)
        except Exception: pass
        answers.setdefault(name, ('timeout', time.time() - t0, ''))
    definite = {n: a[0] for n, a in answers.items() if a[0] in ('sat', 'unsat')}
    if len(set(definite.values())) > 1:
        return Result('disagree', ','.join(definite), time.time() - t0, str(answers), all_answers=answers)
    if winner:
        fams = {family(n) for n, a in answers.items() if a[0] in ('sat', 'unsat')}
        return Result(answers[winner][0], winner, answers[winner][1], detail=('cross-checked by a second solver family' if len(fams) >= 2 else 'single solver family'), all_answers=answers)
    return Result('inconclusive', None, time.time() - t0, str({n: (a[0], a[2][:120]) for n, a in answers.items()}), all_answers=answers)

def get_model(smt_text, names, solver, timeout):
    """re-run the winning solver with (get-value) to obtain the values of `names`"""
    with tempfile.NamedTemporaryFile('w', suffix='.smt2', delete=False) as f:
        f.write(smt_text + '(get-value (%s))\n' % ' '.join(names)); path = f.name
    try:
        order = [solver] + [s for s in ('z3new_a2', 'z3new', 'cvc5', 'z3') if s != solver]
        for sv in order:
            try:
                p = subprocess.run(SOLVERS[sv] + [path], stdout=subprocess.PIPE, stderr=subprocess.STDOUT, text=True, timeout=timeout, preexec_fn=_limits)
            except subprocess.TimeoutExpired:
                continue
            out = p.stdout
            if not out.startswith('sat') or '(error' in out: continue
            vals = {}
            body = out[out.index('\n') + 1:]
            for m in re.finditer(r'\(\s*(\|[^|]*\||[^\s()]+)\s+(\(-\s*\d+\)|-?\d+|true|false)\s*\)', body):
                v = m.group(2)
                if v in ('true', 'false'): vals[m.group(1)] = (v == 'true')
                else: vals[m.group(1)] = int(v.replace('(', '').replace(')', '').replace(' ', ''))
            if all(n in vals for n in names): return vals
        return None
    finally:
        os.unlink(path)
