//! Shared vocabulary of the property functions: `assume`, closed-form calendar oracles, helpers.
//! Everything here is independent of the library's calendar code (no call into `crate::util`).
#![allow(dead_code, unused_imports, clippy::all)]

pub const NPD: i128 = 86_400_000_000_000;
pub const NPS: i128 = 1_000_000_000;
pub const MIN_Y: i32 = -5_879_611;
pub const MAX_Y: i32 = 5_879_611;

/// Panic payload of a failed `assume` in native replay (a solver model that violates an assumption = encoding bug).
pub struct AssumeFailed;
/// Filters inputs. The executor models this call by name: the path continues only where `c` holds.
#[inline(never)]
pub fn assume(c: bool) {
    if !c {
        std::panic::panic_any(AssumeFailed);
    }
}

pub fn floor_div(a: i64, c: i64) -> i64 {
    let q = a / c;
    if a % c < 0 { q - 1 } else { q }
}
pub fn floor_mod(a: i64, c: i64) -> i64 {
    a - floor_div(a, c) * c
}
pub fn fdiv128(a: i128, c: i128) -> i128 {
    let q = a / c;
    if a % c < 0 { q - 1 } else { q }
}
pub fn fmod128(a: i128, c: i128) -> i128 {
    a - fdiv128(a, c) * c
}

/// astronomical year (… -1, 0, 1 …) of a historical year (… -2, -1, 1 …)
pub fn astro(y: i32) -> i64 {
    if y > 0 { y as i64 } else { y as i64 + 1 }
}
/// historical year of an astronomical year
pub fn hist(a: i64) -> i64 {
    if a <= 0 { a - 1 } else { a }
}
pub fn spec_is_leap(y: i32) -> bool {
    let a = astro(y);
    a % 4 == 0 && (a % 100 != 0 || a % 400 == 0)
}
pub fn spec_mdays(y: i32, m: u32) -> u32 {
    match m {
        2 => if spec_is_leap(y) { 29 } else { 28 },
        4 | 6 | 9 | 11 => 30,
        _ => 31,
    }
}
pub fn spec_ylen(y: i32) -> i64 {
    if spec_is_leap(y) { 366 } else { 365 }
}
/// (y, m, d) is a date of the proleptic Gregorian calendar (no year 0)
pub fn spec_valid(y: i32, m: u32, d: u32) -> bool {
    y != 0 && m >= 1 && m <= 12 && d >= 1 && d <= spec_mdays(y, m)
}
/// valid date inside -5879611-06-23 ..= 5879611-07-12
pub fn spec_in_range(y: i32, m: u32, d: u32) -> bool {
    let lo = y > MIN_Y || (y == MIN_Y && (m > 6 || (m == 6 && d >= 23)));
    let hi = y < MAX_Y || (y == MAX_Y && (m < 7 || (m == 7 && d <= 12)));
    lo && hi
}
/// Rata Die: days since 0001-01-01 (= 0), closed form, historical year numbering
pub fn spec_rd(y: i32, m: u32, d: u32) -> i64 {
    let p = astro(y) - 1;
    let leaps = floor_div(p, 4) - floor_div(p, 100) + floor_div(p, 400);
    let cum: i64 = match m {
        1 => 0, 2 => 31, 3 => 59, 4 => 90, 5 => 120, 6 => 151,
        7 => 181, 8 => 212, 9 => 243, 10 => 273, 11 => 304, _ => 334,
    };
    let l: i64 = if m > 2 && spec_is_leap(y) { 1 } else { 0 };
    365 * p + leaps + cum + l + d as i64 - 1
}
/// contract of days_to_date (C01 obligation 1). Exact: spec_rd is injective on valid triples.
pub fn contract_days_to_date(d: i32, y: i32, m: u32, dd: u32) -> bool {
    spec_valid(y, m, dd) && spec_rd(y, m, dd) == d as i64
}
