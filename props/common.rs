//! Shared vocabulary of the property functions: `assume`, closed-form calendar oracles, helpers.
//! Everything here is independent of the library's calendar code (no call into `crate::util`).
#![allow(dead_code, unused_imports, clippy::all)]

pub const NPD: i128 = 86_400_000_000_000;
pub const NPS: i128 = 1_000_000_000;
pub const MIN_Y: i32 = -5_879_611;
pub const MAX_Y: i32 = 5_879_611;

/// Panic payload of a failed `assume` in native replay (a solver model that violates an assumption = encoding bug).
pub struct AssumeFailed;
/// Filters inputs. The executor models this call by name: the path continues only where `c` holds.
#[inline(never)]
pub fn assume(c: bool) {
    if !c {
        std::panic::panic_any(AssumeFailed);
    }
}

pub fn floor_div(a: i64, c: i64) -> i64 {
    let q = a / c;
    if a % c < 0 { q - 1 } else { q }
}
pub fn floor_mod(a: i64, c: i64) -> i64 {
    a - floor_div(a, c) * c
}
pub fn fdiv128(a: i128, c: i128) -> i128 {
    let q = a / c;
    if a % c < 0 { q - 1 } else { q }
}
pub fn fmod128(a: i128, c: i128) -> i128 {
    a - fdiv128(a, c) * c
}

/// astronomical year (… -1, 0, 1 …) of a historical year (… -2, -1, 1 …)
pub fn astro(y: i32) -> i64 {
    if y > 0 { y as i64 } else { y as i64 + 1 }
}
/// historical year of an astronomical year
pub fn hist(a: i64) -> i64 {
    if a <= 0 { a - 1 } else { a }
}
pub fn spec_is_leap(y: i32) -> bool {
    let a = astro(y);
    floor_mod(a, 4) == 0 && (floor_mod(a, 100) != 0 || floor_mod(a, 400) == 0)
}
pub fn spec_mdays(y: i32, m: u32) -> u32 {
    match m {
        2 => if spec_is_leap(y) { 29 } else { 28 },
        4 | 6 | 9 | 11 => 30,
        _ => 31,
    }
}
pub fn spec_ylen(y: i32) -> i64 {
    if spec_is_leap(y) { 366 } else { 365 }
}
/// (y, m, d) is a date of the proleptic Gregorian calendar (no year 0)
pub fn spec_valid(y: i32, m: u32, d: u32) -> bool {
    y != 0 && m >= 1 && m <= 12 && d >= 1 && d <= spec_mdays(y, m)
}
/// valid date inside -5879611-06-23 ..= 5879611-07-12
pub fn spec_in_range(y: i32, m: u32, d: u32) -> bool {
    let lo = y > MIN_Y || (y == MIN_Y && (m > 6 || (m == 6 && d >= 23)));
    let hi = y < MAX_Y || (y == MAX_Y && (m < 7 || (m == 7 && d <= 12)));
    lo && hi
}
/// Rata Die: days since 0001-01-01 (= 0), closed form, historical year numbering
pub fn spec_rd(y: i32, m: u32, d: u32) -> i64 {
    let p = astro(y) - 1;
    let leaps = floor_div(p, 4) - floor_div(p, 100) + floor_div(p, 400);
    let cum: i64 = match m {
        1 => 0, 2 => 31, 3 => 59, 4 => 90, 5 => 120, 6 => 151,
        7 => 181, 8 => 212, 9 => 243, 10 => 273, 11 => 304, _ => 334,
    };
    let l: i64 = if m > 2 && spec_is_leap(y) { 1 } else { 0 };
    365 * p + leaps + cum + l + d as i64 - 1
}
/// contract of days_to_date (C01 obligation 1). Exact: spec_rd is injective on valid triples.
pub fn contract_days_to_date(d: i32, y: i32, m: u32, dd: u32) -> bool {
    spec_valid(y, m, dd) && spec_rd(y, m, dd) == d as i64
}

// ---------------------------------------------------------------- value construction and reading
use crate::{Date, DateTime, Offset, Time};

pub fn dt(d: i32, n: u64, off: i32) -> DateTime {
    DateTime { days: d, nanoseconds: n, offset: Offset::Fixed(off) }
}
pub fn tm(n: u64, off: i32) -> Time {
    Time { nanoseconds: n, offset: Offset::Fixed(off) }
}
/// offset seconds of a value built by `dt`/`tm` (never resolves `Local`)
pub fn off_secs(o: Offset) -> i32 {
    match o {
        Offset::Fixed(s) => s,
        Offset::Local => i32::MIN,
    }
}
/// nanoseconds since 0001-01-01T00:00:00Z
pub fn inst(d: i32, n: u64) -> i128 {
    d as i128 * NPD + n as i128
}
pub fn inst_dt(x: &DateTime) -> i128 {
    inst(x.days, x.nanoseconds)
}
/// representable instants: day number fits i32 and time of day < 24 h
pub fn in_range(t: i128) -> bool {
    t >= i32::MIN as i128 * NPD && t < (i32::MAX as i128 + 1) * NPD
}
pub fn valid_off(off: i32) -> bool {
    off > -86_400 && off < 86_400
}
pub fn local(d: i32, n: u64, off: i32) -> i128 {
    inst(d, n) + off as i128 * NPS
}
pub fn local_day(d: i32, n: u64, off: i32) -> i64 {
    fdiv128(local(d, n, off), NPD) as i64
}
pub fn local_nod(d: i32, n: u64, off: i32) -> i128 {
    fmod128(local(d, n, off), NPD)
}
/// truncating division of i128 (Rust `/`), spelled out for readability of the properties
pub fn trunc_div(a: i128, c: i128) -> i128 {
    a / c
}
/// weekday with 0 = Sunday; day 0 (0001-01-01) is a Monday
pub fn spec_weekday(day: i64) -> i64 {
    (floor_mod(day, 7) + 1) % 7
}
/// ISO weekday 1 = Monday ..= 7 = Sunday
pub fn spec_iso_wd(day: i64) -> i64 {
    floor_mod(day, 7) + 1
}
pub fn prev_year(y: i32) -> i32 {
    if y == 1 { -1 } else { y - 1 }
}
/// days before month m in a common year
pub fn spec_cum(m: u32) -> i64 {
    match m {
        1 => 0, 2 => 31, 3 => 59, 4 => 90, 5 => 120, 6 => 151,
        7 => 181, 8 => 212, 9 => 243, 10 => 273, 11 => 304, _ => 334,
    }
}
/// day of year (1-based) of a valid date, closed form
pub fn spec_doy(y: i32, m: u32, d: u32) -> i64 {
    spec_cum(m) + (if m > 2 && spec_is_leap(y) { 1 } else { 0 }) + d as i64
}
/// ISO weekday (1 = Monday ..= 7 = Sunday) straight from the date triple: spec_rd with 365*p replaced by p
/// (364*p is a multiple of 7). oracle_wd_ymd_holds ties it to floor_mod(spec_rd, 7).
pub fn spec_iso_wd_ymd(y: i32, m: u32, d: u32) -> i64 {
    let p = astro(y) - 1;
    let leaps = floor_div(p, 4) - floor_div(p, 100) + floor_div(p, 400);
    floor_mod(p + leaps + spec_doy(y, m, d) - 1, 7) + 1
}
/// number of ISO weeks of year y: 53 iff 1 January is a Thursday, or a Wednesday in a leap year
pub fn spec_iso_weeks_in_year(y: i32) -> i64 {
    let w = spec_iso_wd_ymd(y, 1, 1);
    if w == 4 || (w == 3 && spec_is_leap(y)) { 53 } else { 52 }
}
/// ISO-8601 week number of a valid date: week = floor((doy - weekday + 10) / 7), 0 -> last week of the previous
/// year, beyond the year's week count -> week 1
pub fn spec_iso_week(y: i32, m: u32, d: u32) -> i64 {
    let w = floor_div(spec_doy(y, m, d) - spec_iso_wd_ymd(y, m, d) + 10, 7);
    if w < 1 { spec_iso_weeks_in_year(prev_year(y)) }
    else if w > spec_iso_weeks_in_year(y) { 1 }
    else { w }
}

/// Declares `days_to_date(d) == (y, m, dd)` for the abstraction "days_to_date/bound": the executor records the
/// binding and answers the library's calls of days_to_date on that argument with the triple (no calendar code
/// is expanded). Natively it is the assumption it states. Quantifying over all consistent (d, y, m, dd) covers
/// every d because days_to_date is total (C01 obligation 1 characterises the consistent tuples).
#[inline(never)]
pub fn bind_days_to_date(d: i32, y: i32, m: u32, dd: u32) {
    assume(crate::util::date::convert::days_to_date(d) == (y, m, dd));
}

/// contract of date_to_days (C01 obligation 2)
pub fn contract_date_to_days(y: i32, m: u32, d: u32, is_ok: bool, k: i32) -> bool {
    let ok = spec_valid(y, m, d) && spec_in_range(y, m, d);
    is_ok == ok && (!ok || k as i64 == spec_rd(y, m, d))
}

// ---------------------------------------------------------------- contracts of the two instant <-> (day, nanos) kernels
/// days_nanos_to_nanos(d, n) is the instant d * 24h + n
pub fn contract_days_nanos_to_nanos(d: i32, n: u64, r: i128) -> bool {
    r == inst(d, n)
}
/// nanos_to_days_nanos(t): Ok((floor(t / 24h), t mod 24h)) exactly when the day fits i32, OutOfRange otherwise
pub fn contract_nanos_to_days_nanos(t: i128, is_ok: bool, d: i32, n: u64) -> bool {
    let ok = in_range(t);
    is_ok == ok && (!ok || (d as i128 == fdiv128(t, NPD) && n as i128 == fmod128(t, NPD)))
}
/// nanos_to_time(n) for a time of day n: the mixed-radix digits (hour, minute, second) of n's whole seconds
pub fn contract_nanos_to_time(n: u64, h: u32, m: u32, s: u32) -> bool {
    n as i128 >= NPD || (h < 24 && m < 60 && s < 60 && h as u64 * 3600 + m as u64 * 60 + s as u64 == n / 1_000_000_000)
}
/// coarse bound used together with the uninterpreted view of spec_rd (oracle_rd_bound_holds proves it of the real one)
pub fn contract_spec_rd_bound(y: i32, m: u32, d: u32, r: i64) -> bool {
    let a = astro(y);
    let mag = if a < 0 { -a } else { a };
    let rel = r - d as i64;
    rel >= -366 * (mag + 2) && rel <= 366 * (mag + 2)
        && (a < 1 || rel >= 365 * (a - 1) - 1)
        && (a > 0 || rel <= 365 * (a - 1) + 335)
}

/// contract of year_doy_to_days for the years strictly inside the range (C18; shown by c18_year_doy_contract_holds): Ok exactly for
/// a day of year the year has, and then January 1 plus the days before it (plus the leap day Julian rule days skip over)
pub fn contract_year_doy_to_days(y: i32, doy: u32, ign: u8, is_ok: bool, k: i32) -> bool {
    if !(MIN_Y < y && y < MAX_Y) || y == 0 { return true; }
    let ok = 1 <= doy && doy as i64 <= spec_ylen(y);
    let adj: i64 = if ign != 0 && spec_is_leap(y) && doy >= 60 { 1 } else { 0 };
    is_ok == ok && (!ok || k as i64 == spec_rd(y, 1, 1) + doy as i64 - 1 + adj)
}
/// contract of is_leap_year (shown by c18_is_leap_contract_holds)
pub fn contract_is_leap_year(y: i32, l: bool) -> bool {
    y == 0 || l == spec_is_leap(y)
}
/// first day of a month relative to January 1 (oracle_rd_month_lemma_holds proves it of the closed forms; instantiated where
/// spec_rd and spec_is_leap are taken as uninterpreted)
pub fn lemma_rd_month(y: i32, m: u32) -> bool {
    spec_rd(y, m, 1) == spec_rd(y, 1, 1) + spec_cum(m) + if m > 2 && spec_is_leap(y) { 1 } else { 0 }
}
/// January 1 of a year strictly inside the range lies well inside the day range (oracle_rd_inner_lemma_holds)
pub fn lemma_rd_inner(y: i32) -> bool {
    !(MIN_Y < y && y < MAX_Y && y != 0) || (spec_rd(y, 1, 1) >= i32::MIN as i64 + 150 && spec_rd(y, 1, 1) + 366 <= i32::MAX as i64 - 150)
}
