//! C17 property module, appended to the copy of src/cron.rs (private fields of CronSchedule are needed).
//! requires: cfg(test) -- built with --cfg test so that the crate's own clock pin (`now: Option<DateTime>`) exists.
use super::*;
use crate::util::date::convert::days_to_date;
use crate::verif_props::common::*;
use crate::{DateTime, DateUtilities, Offset, TimeUtilities};
use std::collections::HashSet;

/// the schedule accepts the whole minute (d, n): month, hour and minute belong to it and the day matches --
/// day-of-month OR day-of-week when both are restricted, the restricted one otherwise. Read through the
/// library's own getters (decided by C01/C02/C10).
pub fn spec_c17_matches(mins: &HashSet<u8>, hours: &HashSet<u8>, doms: &HashSet<u8>, months: &HashSet<u8>, dows: &HashSet<u8>,
                        dom_r: bool, dow_r: bool, d: i32, n: u64) -> bool {
    let x = dt(d, n, 0);
    let in_dom = doms.contains(&(x.day() as u8));
    let in_dow = dows.contains(&x.weekday());
    let day_ok = if dom_r && dow_r { in_dom || in_dow } else if dom_r { in_dom } else if dow_r { in_dow } else { true };
    months.contains(&(x.month() as u8)) && day_ok && hours.contains(&(x.hour() as u8)) && mins.contains(&(x.minute() as u8))
}
fn next_month(y: i32, m: u32) -> (i32, u32) {
    if m == 12 { (if y == -1 { 1 } else { y + 1 }, 1) } else { (y, m + 1) }
}
/// month edge: lands on 00:00 of the first day of the month after `next`'s month
pub fn spec_c17_month_landing(xd: i32, yd: i32, yn: u64) -> bool {
    let (y, m, _) = days_to_date(xd);
    let (y2, m2) = next_month(y, m);
    yn == 0 && yd as i64 == spec_rd(y2, m2, 1)
}
/// instance of oracle_rd_monotone_holds for `next`'s date and the first of the following month
pub fn spec_c17_month_mono_instance(xd: i32) -> bool {
    let (y, m, dd) = days_to_date(xd);
    let (y2, m2) = next_month(y, m);
    mono(y, m, dd, y2, m2, 1)
}
fn abs_min(d: i32, n: u64) -> i64 { d as i64 * 1440 + (n / 60_000_000_000) as i64 }
// ---- field constancy on the interval an edge jumps over, as implications about the getters (instantiated for (next, w))
pub fn spec_c17_constancy_minute(xd: i32, xn: u64, wd: i32, wn: u64) -> bool { true }
pub fn spec_c17_constancy_hour(xd: i32, xn: u64, wd: i32, wn: u64) -> bool {
    floor_div(abs_min(xd, xn), 60) != floor_div(abs_min(wd, wn), 60) || dt(wd, wn, 0).hour() == dt(xd, xn, 0).hour()
}
pub fn spec_c17_constancy_day(xd: i32, xn: u64, wd: i32, wn: u64) -> bool {
    xd != wd || (dt(wd, wn, 0).day() == dt(xd, xn, 0).day() && dt(wd, wn, 0).weekday() == dt(xd, xn, 0).weekday())
}
pub fn spec_c17_constancy_month(xd: i32, xn: u64, wd: i32, wn: u64) -> bool {
    let (y, m, _) = days_to_date(xd);
    let (y2, m2) = next_month(y, m);
    !(xd <= wd && (wd as i64) < spec_rd(y2, m2, 1)) || dt(wd, wn, 0).month() == dt(xd, xn, 0).month()
}
// ---- the lemmas themselves, for the real getters
fn whole_minute(n: u64) -> bool { n < NPD as u64 && n % 60_000_000_000 == 0 }
pub fn c17_hour_constant_holds(xd: i32, xn: u64, wd: i32, wn: u64) {
    assume(xd > i32::MIN); assume(xd < i32::MAX); assume(wd > i32::MIN); assume(wd < i32::MAX);
    assume(xn < NPD as u64); assume(wn < NPD as u64);
    assume(whole_minute(xn) && whole_minute(wn));
    assert!(spec_c17_constancy_hour(xd, xn, wd, wn));
}
pub fn c17_day_constant_holds(xd: i32, xn: u64, wd: i32, wn: u64) {
    assume(xd > i32::MIN); assume(xd < i32::MAX); assume(wd > i32::MIN); assume(wd < i32::MAX);
    assume(xn < NPD as u64); assume(wn < NPD as u64);
    assert!(spec_c17_constancy_day(xd, xn, wd, wn));
}
fn lex_lt(y1: i32, m1: u32, d1: u32, y2: i32, m2: u32, d2: u32) -> bool {
    astro(y1) < astro(y2) || (y1 == y2 && (m1 < m2 || (m1 == m2 && d1 < d2)))
}
/// instance of oracle_rd_monotone_holds for two triples
fn mono(y1: i32, m1: u32, d1: u32, y2: i32, m2: u32, d2: u32) -> bool {
    !lex_lt(y1, m1, d1, y2, m2, d2) || spec_rd(y1, m1, d1) < spec_rd(y2, m2, d2)
}
/// every day from `x` up to (not including) the first of the following month lies in x's month
pub fn c17_month_constant_holds(xd: i32, yx: i32, mx: u32, ddx: u32, xn: u64, wd: i32, yw: i32, mw: u32, ddw: u32, wn: u64) {
    assume(xd > i32::MIN); assume(xd < i32::MAX); assume(wd > i32::MIN); assume(wd < i32::MAX);
    assume(xn < NPD as u64); assume(wn < NPD as u64);
    assume(yx >= MIN_Y && yx <= MAX_Y && spec_valid(yx, mx, ddx) && spec_rd(yx, mx, ddx) == xd as i64);
    assume(yw >= MIN_Y && yw <= MAX_Y && spec_valid(yw, mw, ddw) && spec_rd(yw, mw, ddw) == wd as i64);
    bind_days_to_date(xd, yx, mx, ddx);
    bind_days_to_date(wd, yw, mw, ddw);
    let (y2, m2) = next_month(yx, mx);
    // instances of the monotonicity lemma of the closed-form day count (oracle_rd_monotone_holds)
    assume(mono(yw, mw, ddw, yx, mx, 1) && mono(yx, mx, 1, yx, mx, ddx));
    assume(mono(y2, m2, 1, yw, mw, ddw) || (y2 == yw && m2 == mw && ddw == 1));
    assert!(spec_c17_constancy_month(xd, xn, wd, wn));
}
// ---- native replay of counterexamples from the CFG pieces: the real next() against a minute-by-minute search
pub fn c17_replay_holds(mins: &HashSet<u8>, hours: &HashSet<u8>, doms: &HashSet<u8>, months: &HashSet<u8>, dows: &HashSet<u8>,
                        now_d: i32, now_secs: u32, has_last: bool, last_d: i32, last_min: u32) {
    assume(now_secs < 86_400 && last_min < 1440);
    let now = dt(now_d, now_secs as u64 * 1_000_000_000, 0);
    let last = dt(last_d, last_min as u64 * 60_000_000_000, 0);
    let mut s = CronSchedule {
        minutes: mins.clone(), hours: hours.clone(), days_of_month: doms.clone(), months: months.clone(), days_of_week: dows.clone(),
        last_schedule: if has_last { Some(last) } else { None },
        now: Some(now),
    };
    let now_min = now_d as i64 * 1440 + (now_secs / 60) as i64;
    let last_abs = last_d as i64 * 1440 + last_min as i64;
    let start = (if has_last && last_abs >= now_min { last_abs } else { now_min }) + 1;
    let (dom_r, dow_r) = (doms.len() != 31, dows.len() != 7);
    let mut w = start;
    let mut found = false;
    let mut steps = 0;
    while steps < 6_000_000 {
        let (d, n) = ((w.div_euclid(1440)) as i32, (w.rem_euclid(1440)) as u64 * 60_000_000_000);
        if spec_c17_matches(mins, hours, doms, months, dows, dom_r, dow_r, d, n) { found = true; break; }
        w += 1;
        steps += 1;
    }
    assume(found);
    let r = s.next().unwrap();
    assert!(r.nanoseconds % 60_000_000_000 == 0);
    assert!(r.days as i64 * 1440 + (r.nanoseconds / 60_000_000_000) as i64 == w);
    assert!(s.last_schedule == Some(r));
}
/// replay by scanning clock values: for the schedule the solver returned, the real next() is compared with the
/// minute-by-minute search from three clock values on each of `ndays` days (concrete runs, used only to turn a
/// piece-level counterexample into an observable one)
pub fn c17_replay_scan_holds(mins: &HashSet<u8>, hours: &HashSet<u8>, doms: &HashSet<u8>, months: &HashSet<u8>, dows: &HashSet<u8>, from_day: i32, ndays: u32) {
    let (dom_r, dow_r) = (doms.len() != 31, dows.len() != 7);
    let first = from_day as i64 * 1440;
    let span = (ndays as i64 + 800) * 1440;
    let mut matching: Vec<i64> = Vec::new();
    let mut w = first;
    while w < first + span {
        let (d, n) = ((w.div_euclid(1440)) as i32, (w.rem_euclid(1440)) as u64 * 60_000_000_000);
        if spec_c17_matches(mins, hours, doms, months, dows, dom_r, dow_r, d, n) { matching.push(w); }
        w += 1;
    }
    for day in 0..ndays as i64 {
        for secs in [30u64, 43_140, 86_339] {
            let now = dt(from_day + day as i32, secs * 1_000_000_000, 0);
            let now_min = (from_day as i64 + day) * 1440 + (secs / 60) as i64;
            let idx = matching.partition_point(|&m| m <= now_min);
            if idx >= matching.len() { continue; }
            let mut s = CronSchedule {
                minutes: mins.clone(), hours: hours.clone(), days_of_month: doms.clone(), months: months.clone(), days_of_week: dows.clone(),
                last_schedule: None, now: Some(now),
            };
            let r = s.next().unwrap();
            assert!(r.nanoseconds % 60_000_000_000 == 0 && r.days as i64 * 1440 + (r.nanoseconds / 60_000_000_000) as i64 == matching[idx]);
        }
    }
}
