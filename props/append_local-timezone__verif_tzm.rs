//! C18/C19 through Engine M: the TZif reader on a bounded symbolic byte buffer. Appended to the copy of src/local/timezone.rs.
use super::*;
use crate::verif_props::common::*;
use crate::DateUtilities;

/// C19 (reader half): any bytes of the given shape: from_tzif returns; an accepted file either carries an alternating footer rule whose
/// fields are in the ranges the rule lookup is total on (c19_rule_day_total_holds), or resolves the timestamp from its table / fixed rule
pub fn c19_tzif_total_holds(b: &[u8], ts: i64) {
    if let Ok(tz) = TimeZone::from_tzif(b) {
        match &tz.extra_rule {
            Some(TransitionRule::Alternate(a)) => {
                assert!(crate::local::transition_rule::verif_tr::alt_valid(a));
                if tz.transitions.last().map_or(false, |l| ts < l.unix_leap_time) { let _ = tz.to_local_time_type(ts).utoff; }
            }
            _ => { let _ = tz.to_local_time_type(ts).utoff; }
        }
    }
}

/// C19 (lookup half): the alternating-rule branch of the lookup on any rule the reader can accept (see alt_valid), inner years
pub fn c19_alt_lookup_total_holds(k1: u8, a1: u32, b1: u8, c1: u8, t1: i32, k2: u8, a2: u32, b2: u8, c2: u8, t2: i32, su: i32, du: i32, ts: i64) {
    use crate::local::transition_rule::verif_tr::*;
    use crate::local::transition_rule::AlternateLocalTimeType;
    assume(k1 <= 2 && a1 <= 365 && k2 <= 2 && a2 <= 365 && (k1 < 2 || a1 <= 12) && (k2 < 2 || a2 <= 12));
    let (r1, r2) = (mk_rule_day(k1, a1, b1, c1), mk_rule_day(k2, a2, b2, c2));
    assume(rule_day_valid(&r1) && rule_day_valid(&r2));
    assume(-RULE_TIME_MAX <= t1 && t1 <= RULE_TIME_MAX && -RULE_TIME_MAX <= t2 && t2 <= RULE_TIME_MAX);
    assume(-UTOFF_MAX <= su && su <= UTOFF_MAX && -UTOFF_MAX <= du && du <= UTOFF_MAX);
    assume(TS_LO_INNER <= ts && ts <= TS_HI_INNER);
    let tz = TimeZone {
        transitions: Vec::new(),
        local_time_types: Vec::new(),
        extra_rule: Some(TransitionRule::Alternate(AlternateLocalTimeType::new(LocalTimeType::new(su, false), r1, t1 as u32, LocalTimeType::new(du, true), r2, t2 as u32))),
    };
    let _ = tz.to_local_time_type(ts).utoff;
}

// ---------------------------------------------------------------- C18
fn be32(b: &[u8], o: usize) -> usize { u32::from_be_bytes([b[o], b[o + 1], b[o + 2], b[o + 3]]) as usize }
/// layout of a TZif file read independently of the reader: (time size, offset of the times, transitions, types, offset after the block)
fn layout(b: &[u8]) -> (usize, usize, usize, usize, usize, bool) {
    let blk = |h: usize, ts: usize| -> usize {
        let (isut, isstd, leap, t, n, ch) = (be32(b, h + 20), be32(b, h + 24), be32(b, h + 28), be32(b, h + 32), be32(b, h + 36), be32(b, h + 40));
        h + 44 + t * ts + t + n * 6 + ch + leap * (ts + 4) + isstd + isut
    };
    if b[4] == 0 {
        (4, 44, be32(b, 32), be32(b, 36), blk(0, 4), false)
    } else {
        let h2 = blk(0, 4);
        (8, h2 + 44, be32(b, h2 + 32), be32(b, h2 + 36), blk(h2, 8), true)
    }
}
fn ref_time(b: &[u8], l: &(usize, usize, usize, usize, usize, bool), i: usize) -> i64 {
    let o = l.1 + i * l.0;
    if l.0 == 4 { i32::from_be_bytes([b[o], b[o + 1], b[o + 2], b[o + 3]]) as i64 }
    else { i64::from_be_bytes([b[o], b[o + 1], b[o + 2], b[o + 3], b[o + 4], b[o + 5], b[o + 6], b[o + 7]]) }
}
fn ref_idx(b: &[u8], l: &(usize, usize, usize, usize, usize, bool), i: usize) -> usize { b[l.1 + l.2 * l.0 + i] as usize }
fn ref_utoff(b: &[u8], l: &(usize, usize, usize, usize, usize, bool), k: usize) -> i32 {
    let o = l.1 + l.2 * l.0 + l.2 + k * 6;
    i32::from_be_bytes([b[o], b[o + 1], b[o + 2], b[o + 3]])
}
/// the file is well formed as far as its table goes: type indices name a type, transition times strictly increase
fn assume_table(b: &[u8], l: &(usize, usize, usize, usize, usize, bool)) {
    assume(l.3 >= 1);
    for i in 0..l.2 {
        assume(ref_idx(b, l, i) < l.3);
        if i > 0 { assume(ref_time(b, l, i - 1) < ref_time(b, l, i)); }
    }
}
/// C18 (table): from the first transition up to the last one (version 2+) / onward (version 1, no footer): the type of the latest
/// transition at or before the timestamp
pub fn c18_table_lookup_holds(b: &[u8], ts: i64) {
    let l = layout(b);
    assume_table(b, &l);
    assume(l.2 >= 1 && ts >= ref_time(b, &l, 0));
    if l.5 { assume(ts < ref_time(b, &l, l.2 - 1)); }
    let tz = TimeZone::from_tzif(b).unwrap();
    let mut expect = ref_utoff(b, &l, ref_idx(b, &l, 0));
    for i in 0..l.2 {
        if ref_time(b, &l, i) <= ts { expect = ref_utoff(b, &l, ref_idx(b, &l, i)); }
    }
    assert!(tz.to_local_time_type(ts).utoff == expect);
}
/// C18 (footer): the reader's rule is what the footer text denotes (reference reader); with a fixed rule, every timestamp from the
/// last transition on (any timestamp without transitions) resolves to the footer's offset
pub fn c18_footer_holds(b: &[u8], ts: i64) {
    use crate::local::transition_rule::verif_tr::*;
    let l = layout(b);
    assume(l.5);
    assume_table(b, &l);
    let denoted = ref_footer(&b[l.4..], b[4] == b'3');
    assume(denoted.is_some());          // a well-formed footer (reference reader) ..
    let tz = TimeZone::from_tzif(b).unwrap();       // .. is accepted ..
    let (std, alt) = denoted.unwrap();              // .. and denotes this rule
    match (&tz.extra_rule, alt) {
        (Some(TransitionRule::Fixed(t)), None) => {
            assert!(t.utoff == std);
            if l.2 == 0 || ts >= ref_time(b, &l, l.2 - 1) { assert!(tz.to_local_time_type(ts).utoff == std); }
        }
        (Some(TransitionRule::Alternate(a)), Some((dst, r1, t1, r2, t2))) => assert!(alt_fields(a) == (std, dst, r1, t1, r2, t2)),
        _ => assert!(false),
    }
}
/// C18 (alternating rule): standard/daylight switching at the rule instants, either hemisphere, for rules shaped like every IANA zone
/// (switch-overs more than a week apart and more than a week from 1 January)
pub fn c18_alt_offset_holds(k1: u8, a1: u32, b1: u8, c1: u8, t1: i32, k2: u8, a2: u32, b2: u8, c2: u8, t2: i32, su: i32, du: i32, ts: i64) {
    use crate::local::transition_rule::verif_tr::*;
    use crate::local::transition_rule::AlternateLocalTimeType;
    assume(k1 <= 2 && a1 <= 365 && k2 <= 2 && a2 <= 365 && (k1 < 2 || a1 <= 12) && (k2 < 2 || a2 <= 12));
    let (r1, r2) = (mk_rule_day(k1, a1, b1, c1), mk_rule_day(k2, a2, b2, c2));
    assume(rule_day_valid(&r1) && rule_day_valid(&r2));
    assume(-RULE_TIME_MAX <= t1 && t1 <= RULE_TIME_MAX && -RULE_TIME_MAX <= t2 && t2 <= RULE_TIME_MAX);
    assume(-UTOFF_MAX <= su && su <= UTOFF_MAX && -UTOFF_MAX <= du && du <= UTOFF_MAX);
    assume(TS_LO_INNER <= ts && ts <= TS_HI_INNER);
    let year = crate::DateTime::from_timestamp(ts).year();
    assume(MIN_Y < year && year < MAX_Y && year != 0); // (c18_inner_year_holds: true of every such timestamp)
    if k1 == 2 { assume(lemma_rd_month(year, a1)); }    // (oracle_rd_month_lemma_holds)
    if k2 == 2 { assume(lemma_rd_month(year, a2)); }
    assume(lemma_rd_inner(year));                       // (oracle_rd_inner_lemma_holds)
    let week = 7 * 86_400;
    let s = (spec_rule_rd(k1, a1, b1, c1, year) - EPOCH_DAY) * 86_400 + t1 as i64 - su as i64; // daylight time starts (UTC)
    let e = (spec_rule_rd(k2, a2, b2, c2, year) - EPOCH_DAY) * 86_400 + t2 as i64 - du as i64; // daylight time ends (UTC)
    let y0 = (spec_rd(year, 1, 1) - EPOCH_DAY) * 86_400;
    let y1 = y0 + spec_ylen(year) * 86_400;
    assume(s - e > week || e - s > week);
    assume(y0 + week < s && s < y1 - week && y0 + week < e && e < y1 - week);
    let expect = if s < e { if s <= ts && ts < e { du } else { su } } else if e <= ts && ts < s { su } else { du };
    let tz = TimeZone {
        transitions: Vec::new(),
        local_time_types: Vec::new(),
        extra_rule: Some(TransitionRule::Alternate(AlternateLocalTimeType::new(LocalTimeType::new(su, false), r1, t1 as u32, LocalTimeType::new(du, true), r2, t2 as u32))),
    };
    assert!(tz.to_local_time_type(ts).utoff == expect);
}
/// classification of the reader's result (encoding validation: see c19_enc_classify_holds)
pub fn dbg_classify(b: &[u8]) -> i32 {
    match TimeZone::from_tzif(b) {
        Err(_) => 0,
        Ok(tz) => match &tz.extra_rule {
            None => 1,
            Some(TransitionRule::Fixed(_)) => 2,
            Some(TransitionRule::Alternate(a)) => if crate::local::transition_rule::verif_tr::alt_valid(a) { 3 } else { 4 },
        },
    }
}
/// encoding validation only (not a claim): on concrete (bytes, k) the native build and the encoding must agree on whether the reader's
/// result class is k, so an encoding that takes a wrong path through the reader is noticed even where neither side panics
pub fn c19_enc_classify_holds(b: &[u8], k: i32) {
    assume(0 <= k && k <= 4);
    assert!(dbg_classify(b) == k);
}
/// C18 (alternating rule, branch logic): with the two rule instants x1, x2 (local seconds, whatever rule_to_local_timestamp returns
/// for the two rules: uninterpreted here, c18_rule_day_holds is about their values), the lookup answers daylight time exactly
/// between the start and the end, in either order, for switch-overs more than a week apart
pub fn c18_alt_branch_holds(k1: u8, a1: u32, b1: u8, c1: u8, t1: i32, k2: u8, a2: u32, b2: u8, c2: u8, t2: i32, su: i32, du: i32, ts: i64) {
    use crate::local::transition_rule::verif_tr::*;
    use crate::local::transition_rule::AlternateLocalTimeType;
    assume(k1 <= 2 && a1 <= 365 && k2 <= 2 && a2 <= 365 && (k1 < 2 || a1 <= 12) && (k2 < 2 || a2 <= 12));
    let (r1, r2) = (mk_rule_day(k1, a1, b1, c1), mk_rule_day(k2, a2, b2, c2));
    assume(rule_day_valid(&r1) && rule_day_valid(&r2));
    assume(-RULE_TIME_MAX <= t1 && t1 <= RULE_TIME_MAX && -RULE_TIME_MAX <= t2 && t2 <= RULE_TIME_MAX);
    assume(-UTOFF_MAX <= su && su <= UTOFF_MAX && -UTOFF_MAX <= du && du <= UTOFF_MAX);
    assume(TS_LO_INNER <= ts && ts <= TS_HI_INNER);
    let s = rule_ts(mk_rule_day(k1, a1, b1, c1), t1, ts) - su as i64; // daylight time starts (UTC)
    let e = rule_ts(mk_rule_day(k2, a2, b2, c2), t2, ts) - du as i64; // daylight time ends (UTC)
    assume(s != e);
    let expect = if s < e { if s <= ts && ts < e { du } else { su } } else if e <= ts && ts < s { su } else { du };
    let tz = TimeZone {
        transitions: Vec::new(),
        local_time_types: Vec::new(),
        extra_rule: Some(TransitionRule::Alternate(AlternateLocalTimeType::new(LocalTimeType::new(su, false), r1, t1 as u32, LocalTimeType::new(du, true), r2, t2 as u32))),
    };
    assert!(tz.to_local_time_type(ts).utoff == expect);
}
/// C18 (dispatch): with a transition table AND an alternating rule, every timestamp from the last transition on is answered by the
/// rule (the same expectation as c18_alt_branch_holds), every earlier one from the first transition on by the table
pub fn c18_alt_after_table_holds(k1: u8, a1: u32, b1: u8, c1: u8, t1: i32, k2: u8, a2: u32, b2: u8, c2: u8, t2: i32, su: i32, du: i32, ts: i64, tr0: i64, tr1: i64, u0: i32, u1: i32) {
    use crate::local::transition_rule::verif_tr::*;
    use crate::local::transition_rule::AlternateLocalTimeType;
    assume(k1 <= 2 && a1 <= 365 && k2 <= 2 && a2 <= 365 && (k1 < 2 || a1 <= 12) && (k2 < 2 || a2 <= 12));
    let (r1, r2) = (mk_rule_day(k1, a1, b1, c1), mk_rule_day(k2, a2, b2, c2));
    assume(rule_day_valid(&r1) && rule_day_valid(&r2));
    assume(-RULE_TIME_MAX <= t1 && t1 <= RULE_TIME_MAX && -RULE_TIME_MAX <= t2 && t2 <= RULE_TIME_MAX);
    assume(-UTOFF_MAX <= su && su <= UTOFF_MAX && -UTOFF_MAX <= du && du <= UTOFF_MAX);
    assume(tr0 < tr1 && ts >= tr0);
    assume(TS_LO_INNER <= ts && ts <= TS_HI_INNER);
    let s = rule_ts(mk_rule_day(k1, a1, b1, c1), t1, ts) - su as i64;
    let e = rule_ts(mk_rule_day(k2, a2, b2, c2), t2, ts) - du as i64;
    assume(s != e);
    let by_rule = if s < e { if s <= ts && ts < e { du } else { su } } else if e <= ts && ts < s { su } else { du };
    let expect = if ts >= tr1 { by_rule } else { u0 };
    let mut transitions = Vec::new();
    transitions.push(Transition::new(tr0, 0));
    transitions.push(Transition::new(tr1, 1));
    let mut local_time_types = Vec::new();
    local_time_types.push(LocalTimeType::new(u0, false));
    local_time_types.push(LocalTimeType::new(u1, true));
    let tz = TimeZone {
        transitions,
        local_time_types,
        extra_rule: Some(TransitionRule::Alternate(AlternateLocalTimeType::new(LocalTimeType::new(su, false), r1, t1 as u32, LocalTimeType::new(du, true), r2, t2 as u32))),
    };
    assert!(tz.to_local_time_type(ts).utoff == expect);
}
