//! C01 Day number <-> proleptic Gregorian date is a validated bijection
use super::common::*;
use crate::errors::AstrolabeError;
use crate::util::date::convert::{date_to_days, days_to_date};
use crate::{Date, DateTime};

/// (1) every day reads back as a valid triple whose closed-form day count is that day
pub fn c01_days_to_date_holds(d: i32) {
    let (y, m, dd) = days_to_date(d);
    assert!(spec_valid(y, m, dd));
    assert!(spec_rd(y, m, dd) == d as i64);
}
pub fn c01_date_as_ymd_holds(d: i32) {
    let (y, m, dd) = Date { days: d }.as_ymd();
    assert!(contract_days_to_date(d, y, m, dd));
}
pub fn c01_datetime_as_ymd_holds(d: i32, n: u64) {
    assume(n < NPD as u64);
    let (y, m, dd) = DateTime { days: d, nanoseconds: n, offset: crate::Offset::Fixed(0) }.as_ymd();
    assert!(contract_days_to_date(d, y, m, dd));
}

/// (2) from_ymd: Ok(closed-form day) exactly for valid in-range triples, OutOfRange otherwise
pub fn c01_date_to_days_holds(y: i32, m: u32, d: u32) {
    let ok = spec_valid(y, m, d) && spec_in_range(y, m, d);
    match date_to_days(y, m, d) {
        Ok(k) => assert!(ok && k as i64 == spec_rd(y, m, d)),
        Err(AstrolabeError::OutOfRange(_)) => assert!(!ok),
        Err(_) => assert!(false),
    }
}
pub fn c01_date_from_ymd_holds(y: i32, m: u32, d: u32) {
    let ok = spec_valid(y, m, d) && spec_in_range(y, m, d);
    match Date::from_ymd(y, m, d) {
        Ok(k) => assert!(ok && k.days as i64 == spec_rd(y, m, d)),
        Err(AstrolabeError::OutOfRange(_)) => assert!(!ok),
        Err(_) => assert!(false),
    }
}
pub fn c01_datetime_from_ymd_holds(y: i32, m: u32, d: u32) {
    let ok = spec_valid(y, m, d) && spec_in_range(y, m, d);
    match DateTime::from_ymd(y, m, d) {
        Ok(k) => assert!(ok && k.days as i64 == spec_rd(y, m, d) && k.nanoseconds == 0 && k.offset == crate::Offset::Fixed(0)),
        Err(AstrolabeError::OutOfRange(_)) => assert!(!ok),
        Err(_) => assert!(false),
    }
}
/// round trip through the public API (days_to_date enters through its contract, proven by (1) in the same run)
pub fn c01_roundtrip_holds(d: i32) {
    let (y, m, dd) = Date { days: d }.as_ymd();
    match Date::from_ymd(y, m, dd) {
        Ok(k) => assert!(k.days == d),
        Err(_) => assert!(false),
    }
}
fn lex_lt(y1: i32, m1: u32, d1: u32, y2: i32, m2: u32, d2: u32) -> bool {
    astro(y1) < astro(y2) || (y1 == y2 && (m1 < m2 || (m1 == m2 && d1 < d2)))
}
/// reading back the day built from a valid in-range triple gives that triple (the other direction of the round trip).
/// Follows from obligation (1) and strict monotonicity of the closed-form day count, instantiated for the two triples
/// (oracle_rd_monotone_holds); used as a side fact of the date_to_days abstraction.
pub fn c01_triple_roundtrip_holds(y: i32, m: u32, d: u32) {
    assume(spec_valid(y, m, d) && spec_in_range(y, m, d));
    assume(spec_rd(y, m, d) >= i32::MIN as i64 && spec_rd(y, m, d) <= i32::MAX as i64); // oracle_rd_anchors + monotonicity
    let k = spec_rd(y, m, d) as i32;
    let (y2, m2, d2) = days_to_date(k);
    assume(!lex_lt(y, m, d, y2, m2, d2) || spec_rd(y, m, d) < spec_rd(y2, m2, d2));
    assume(!lex_lt(y2, m2, d2, y, m, d) || spec_rd(y2, m2, d2) < spec_rd(y, m, d));
    assert!(y2 == y && m2 == m && d2 == d);
}

/// contract of year_doy_to_days used by the C18 rule obligations (inner years)
pub fn c18_year_doy_contract_holds(y: i32, doy: u32, ign: bool) {
    assume(MIN_Y < y && y < MAX_Y && y != 0);
    let r = crate::util::date::convert::year_doy_to_days(y, doy, ign);
    let ok = r.is_ok();
    assert!(contract_year_doy_to_days(y, doy, ign as u8, ok, r.unwrap_or(0)));
}
pub fn c18_is_leap_contract_holds(y: i32) {
    assert!(contract_is_leap_year(y, crate::util::leap::is_leap_year(y)));
}
