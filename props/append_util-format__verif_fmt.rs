//! C11 (reduced): for every documented symbol and width, format_date_part / format_time_part on the one-symbol
//! pattern returns the documented renderer applied to the documented value. Appended to the copy of
//! src/util/format.rs because the leaf renderers (zero_padded, ...) are private to it. The table below is the
//! documentation of DateTime::format transcribed: symbol, width -> renderer(value).
use super::*;
use crate::verif_props::common::*;
use crate::util::date::convert::{days_to_date, days_to_doy, days_to_wday, days_to_wyear};

fn lit(s: &str) -> String { s.to_string() }
const MONTHS_WIDE: [&str; 12] = ["January", "February", "March", "April", "May", "June", "July", "August", "September", "October", "November", "December"];
const MONTHS_ABBR: [&str; 12] = ["Jan", "Feb", "Mar", "Apr", "May", "Jun", "Jul", "Aug", "Sep", "Oct", "Nov", "Dec"];
const MONTHS_NARROW: [&str; 12] = ["J", "F", "M", "A", "M", "J", "J", "A", "S", "O", "N", "D"];
const WD_WIDE: [&str; 7] = ["Sunday", "Monday", "Tuesday", "Wednesday", "Thursday", "Friday", "Saturday"];
const WD_ABBR: [&str; 7] = ["Sun", "Mon", "Tue", "Wed", "Thu", "Fri", "Sat"];
const WD_NARROW: [&str; 7] = ["S", "M", "T", "W", "T", "F", "S"];
const WD_SHORT: [&str; 7] = ["Su", "Mo", "Tu", "We", "Th", "Fr", "Sa"];

/// the documented rendering of one date symbol repeated `w` times (w >= 1); `yy` is not covered (digit surgery on the decimal string)
pub fn spec_date_part(sym: u8, w: usize, days: i32) -> String {
    let (year, month, day) = days_to_date(days);
    match sym {
        b'G' => {
            let bc = days < 0; // era of the proleptic calendar: day 0 is 0001-01-01
            match w {
                1 | 2 | 3 => if bc { lit("BC") } else { lit("AD") },
                5 => if bc { lit("B") } else { lit("A") },
                _ => if bc { lit("Before Christ") } else { lit("Anno Domini") }, // GGGG and, as the default, anything longer
            }
        }
        b'y' => zero_padded_i(year, w), // unlimited length, padded with zeros (w != 2)
        b'q' => {
            let q = (month - 1) / 3 + 1;
            match w {
                1 => zero_padded(q, 1),
                2 => zero_padded(q, 2),
                3 => format!("Q{}", q),
                4 => format!("{} quarter", add_ordinal_indicator(q)),
                _ => zero_padded(q, 1), // qqqqq and the default q
            }
        }
        b'M' => match w {
            1 => zero_padded(month, 1),
            2 => zero_padded(month, 2),
            3 => MONTHS_ABBR.into_iter().nth((month - 1) as usize).unwrap().to_string(),
            5 => MONTHS_NARROW.into_iter().nth((month - 1) as usize).unwrap().to_string(),
            _ => MONTHS_WIDE.into_iter().nth((month - 1) as usize).unwrap().to_string(), // MMMM is the default
        },
        b'w' => zero_padded(days_to_wyear(days), if w == 1 { 1 } else { 2 }),
        b'd' => zero_padded(day, if w == 1 { 1 } else { 2 }),
        b'D' => zero_padded(days_to_doy(days), if w == 2 { 2 } else if w == 3 { 3 } else { 1 }),
        b'e' => {
            let sunday_first = days_to_wday(days, false);
            match w {
                1 => zero_padded(sunday_first + 1, 1),
                2 => zero_padded(sunday_first + 1, 2),
                3 => WD_ABBR.into_iter().nth(sunday_first as usize).unwrap().to_string(),
                4 => WD_WIDE.into_iter().nth(sunday_first as usize).unwrap().to_string(),
                5 => WD_NARROW.into_iter().nth(sunday_first as usize).unwrap().to_string(),
                6 => WD_SHORT.into_iter().nth(sunday_first as usize).unwrap().to_string(),
                7 => zero_padded(days_to_wday(days, true) + 1, 1),
                8 => zero_padded(days_to_wday(days, true) + 1, 2),
                _ => zero_padded(sunday_first + 1, 1),
            }
        }
        _ => lit("?"),
    }
}
fn period(nanos: u64, style: usize, with_noon: bool) -> String {
    // style: 0 = AM/PM, 1 = am/pm, 2 = a.m./p.m., 3 = a/p
    let secs = (nanos / 1_000_000_000) as u32 % 86_400;
    let names: [&str; 4] = match style { 0 => ["AM", "PM", "noon", "midnight"], 1 => ["am", "pm", "noon", "midnight"], 2 => ["a.m.", "p.m.", "noon", "midnight"], _ => ["a", "p", "n", "mi"] };
    if with_noon && secs == 0 { names[3].to_string() }
    else if with_noon && secs == 43_200 { names[2].to_string() }
    else if secs < 43_200 { names[0].to_string() }
    else { names[1].to_string() }
}
fn zone(w: usize, offset: i32, with_z: bool) -> String {
    if with_z && offset == 0 { return lit("Z"); }
    let mag = offset.unsigned_abs();
    let (h, m, s) = (mag / 3600, mag % 3600 / 60, mag % 60);
    let sign = if offset < 0 { "-" } else { "+" };
    match w {
        1 => format!("{}{}{}", sign, zero_padded(h, 2), if m != 0 { zero_padded(m, 2) } else { "".to_string() }),
        2 => format!("{}{}{}", sign, zero_padded(h, 2), zero_padded(m, 2)),
        4 => format!("{}{}{}{}", sign, zero_padded(h, 2), zero_padded(m, 2), if s != 0 { zero_padded(s, 2) } else { "".to_string() }),
        5 => format!("{}{}:{}{}", sign, zero_padded(h, 2), zero_padded(m, 2), if s != 0 { format!(":{}", zero_padded(s, 2)) } else { "".to_string() }),
        _ => format!("{}{}:{}", sign, zero_padded(h, 2), zero_padded(m, 2)), // xxx / XXX are the default
    }
}
/// the documented rendering of one time symbol repeated `w` times; `nanos` is the local time of day, `offset` the zone offset
pub fn spec_time_part(sym: u8, w: usize, nanos: u64, offset: i32) -> String {
    let secs = (nanos / 1_000_000_000) as u32;
    let (hour, minute, second) = (secs / 3600, secs / 60 % 60, secs % 60);
    let two = if w == 1 { 1 } else { 2 };
    match sym {
        b'a' => period(nanos, match w { 1 | 2 => 0, 4 => 2, 5 => 3, _ => 1 }, false),
        b'b' => period(nanos, match w { 1 | 2 => 0, 4 => 2, 5 => 3, _ => 1 }, true),
        b'h' => zero_padded(if hour % 12 == 0 { 12 } else { hour % 12 }, two),
        b'H' => zero_padded(hour, two),
        b'K' => zero_padded(hour % 12, two),
        b'k' => zero_padded(if hour == 0 { 24 } else { hour }, two),
        b'm' => zero_padded(minute, two),
        b's' => zero_padded(second, two),
        b'n' => {
            let sub = (nanos % 1_000_000_000) as u32;
            match w {
                1 => zero_padded(sub / 100_000_000, 1),
                2 => zero_padded(sub / 10_000_000, 2),
                4 => zero_padded(sub / 1_000, 6),
                5 => zero_padded(sub, 9),
                _ => zero_padded(sub / 1_000_000, 3), // nnn is the default
            }
        }
        b'X' => zone(w, offset, true),
        b'x' => zone(w, offset, false),
        _ => lit("?"),
    }
}

macro_rules! date_sym {
    ($name:ident, $pat:expr, $sym:expr, $w:expr) => {
        pub fn $name(d: i32) {
            assert!(format_date_part($pat, d) == spec_date_part($sym, $w, d));
        }
    };
}
macro_rules! time_sym {
    ($name:ident, $pat:expr, $sym:expr, $w:expr) => {
        pub fn $name(n: u64, off: i32) {
            assume(n < 86_400_000_000_000); assume(off > -86_400); assume(off < 86_400);
            assert!(format_time_part($pat, n, off) == spec_time_part($sym, $w, n, off));
        }
    };
}
date_sym!(c11_date_ug1_holds, "G", b'G', 1);
date_sym!(c11_date_ug2_holds, "GG", b'G', 2);
date_sym!(c11_date_ug3_holds, "GGG", b'G', 3);
date_sym!(c11_date_ug4_holds, "GGGG", b'G', 4);
date_sym!(c11_date_ug5_holds, "GGGGG", b'G', 5);
date_sym!(c11_date_ug6_holds, "GGGGGG", b'G', 6);
date_sym!(c11_date_ug7_holds, "GGGGGGG", b'G', 7);
date_sym!(c11_date_y1_holds, "y", b'y', 1);
/// `yy`: documented by example only (years 2, 20, 201, 2017, 20173 -> 02, 20, 01, 17, 73): the year modulo 100, two digits.
/// The table gives no BC example, so the value is claimed for years >= 1 (days >= 0); for BC days only that the call returns.
pub fn c11_date_y2_holds(d: i32) {
    let r = format_date_part("yy", d);
    if d >= 0 {
        let (year, _, _) = days_to_date(d);
        assert!(r == zero_padded_i(year % 100, 2));
    }
}
date_sym!(c11_date_y3_holds, "yyy", b'y', 3);
date_sym!(c11_date_y4_holds, "yyyy", b'y', 4);
date_sym!(c11_date_y5_holds, "yyyyy", b'y', 5);
date_sym!(c11_date_y6_holds, "yyyyyy", b'y', 6);
date_sym!(c11_date_y7_holds, "yyyyyyy", b'y', 7);
date_sym!(c11_date_y8_holds, "yyyyyyyy", b'y', 8);
date_sym!(c11_date_y9_holds, "yyyyyyyyy", b'y', 9);
date_sym!(c11_date_y10_holds, "yyyyyyyyyy", b'y', 10);
date_sym!(c11_date_q1_holds, "q", b'q', 1);
date_sym!(c11_date_q2_holds, "qq", b'q', 2);
date_sym!(c11_date_q3_holds, "qqq", b'q', 3);
date_sym!(c11_date_q4_holds, "qqqq", b'q', 4);
date_sym!(c11_date_q5_holds, "qqqqq", b'q', 5);
date_sym!(c11_date_q6_holds, "qqqqqq", b'q', 6);
date_sym!(c11_date_q7_holds, "qqqqqqq", b'q', 7);
date_sym!(c11_date_um1_holds, "M", b'M', 1);
date_sym!(c11_date_um2_holds, "MM", b'M', 2);
date_sym!(c11_date_um3_holds, "MMM", b'M', 3);
date_sym!(c11_date_um4_holds, "MMMM", b'M', 4);
date_sym!(c11_date_um5_holds, "MMMMM", b'M', 5);
date_sym!(c11_date_um6_holds, "MMMMMM", b'M', 6);
date_sym!(c11_date_um7_holds, "MMMMMMM", b'M', 7);
date_sym!(c11_date_w1_holds, "w", b'w', 1);
date_sym!(c11_date_w2_holds, "ww", b'w', 2);
date_sym!(c11_date_w3_holds, "www", b'w', 3);
date_sym!(c11_date_w4_holds, "wwww", b'w', 4);
date_sym!(c11_date_d1_holds, "d", b'd', 1);
date_sym!(c11_date_d2_holds, "dd", b'd', 2);
date_sym!(c11_date_d3_holds, "ddd", b'd', 3);
date_sym!(c11_date_d4_holds, "dddd", b'd', 4);
date_sym!(c11_date_ud1_holds, "D", b'D', 1);
date_sym!(c11_date_ud2_holds, "DD", b'D', 2);
date_sym!(c11_date_ud3_holds, "DDD", b'D', 3);
date_sym!(c11_date_ud4_holds, "DDDD", b'D', 4);
date_sym!(c11_date_ud5_holds, "DDDDD", b'D', 5);
date_sym!(c11_date_e1_holds, "e", b'e', 1);
date_sym!(c11_date_e2_holds, "ee", b'e', 2);
date_sym!(c11_date_e3_holds, "eee", b'e', 3);
date_sym!(c11_date_e4_holds, "eeee", b'e', 4);
date_sym!(c11_date_e5_holds, "eeeee", b'e', 5);
date_sym!(c11_date_e6_holds, "eeeeee", b'e', 6);
date_sym!(c11_date_e7_holds, "eeeeeee", b'e', 7);
date_sym!(c11_date_e8_holds, "eeeeeeee", b'e', 8);
date_sym!(c11_date_e9_holds, "eeeeeeeee", b'e', 9);
date_sym!(c11_date_e10_holds, "eeeeeeeeee", b'e', 10);
time_sym!(c11_time_a1_holds, "a", b'a', 1);
time_sym!(c11_time_a2_holds, "aa", b'a', 2);
time_sym!(c11_time_a3_holds, "aaa", b'a', 3);
time_sym!(c11_time_a4_holds, "aaaa", b'a', 4);
time_sym!(c11_time_a5_holds, "aaaaa", b'a', 5);
time_sym!(c11_time_a6_holds, "aaaaaa", b'a', 6);
time_sym!(c11_time_a7_holds, "aaaaaaa", b'a', 7);
time_sym!(c11_time_b1_holds, "b", b'b', 1);
time_sym!(c11_time_b2_holds, "bb", b'b', 2);
time_sym!(c11_time_b3_holds, "bbb", b'b', 3);
time_sym!(c11_time_b4_holds, "bbbb", b'b', 4);
time_sym!(c11_time_b5_holds, "bbbbb", b'b', 5);
time_sym!(c11_time_b6_holds, "bbbbbb", b'b', 6);
time_sym!(c11_time_b7_holds, "bbbbbbb", b'b', 7);
time_sym!(c11_time_h1_holds, "h", b'h', 1);
time_sym!(c11_time_h2_holds, "hh", b'h', 2);
time_sym!(c11_time_h3_holds, "hhh", b'h', 3);
time_sym!(c11_time_h4_holds, "hhhh", b'h', 4);
time_sym!(c11_time_uh1_holds, "H", b'H', 1);
time_sym!(c11_time_uh2_holds, "HH", b'H', 2);
time_sym!(c11_time_uh3_holds, "HHH", b'H', 3);
time_sym!(c11_time_uh4_holds, "HHHH", b'H', 4);
time_sym!(c11_time_uk1_holds, "K", b'K', 1);
time_sym!(c11_time_uk2_holds, "KK", b'K', 2);
time_sym!(c11_time_uk3_holds, "KKK", b'K', 3);
time_sym!(c11_time_uk4_holds, "KKKK", b'K', 4);
time_sym!(c11_time_k1_holds, "k", b'k', 1);
time_sym!(c11_time_k2_holds, "kk", b'k', 2);
time_sym!(c11_time_k3_holds, "kkk", b'k', 3);
time_sym!(c11_time_k4_holds, "kkkk", b'k', 4);
time_sym!(c11_time_m1_holds, "m", b'm', 1);
time_sym!(c11_time_m2_holds, "mm", b'm', 2);
time_sym!(c11_time_m3_holds, "mmm", b'm', 3);
time_sym!(c11_time_m4_holds, "mmmm", b'm', 4);
time_sym!(c11_time_s1_holds, "s", b's', 1);
time_sym!(c11_time_s2_holds, "ss", b's', 2);
time_sym!(c11_time_s3_holds, "sss", b's', 3);
time_sym!(c11_time_s4_holds, "ssss", b's', 4);
time_sym!(c11_time_n1_holds, "n", b'n', 1);
time_sym!(c11_time_n2_holds, "nn", b'n', 2);
time_sym!(c11_time_n3_holds, "nnn", b'n', 3);
time_sym!(c11_time_n4_holds, "nnnn", b'n', 4);
time_sym!(c11_time_n5_holds, "nnnnn", b'n', 5);
time_sym!(c11_time_n6_holds, "nnnnnn", b'n', 6);
time_sym!(c11_time_n7_holds, "nnnnnnn", b'n', 7);
time_sym!(c11_time_ux1_holds, "X", b'X', 1);
time_sym!(c11_time_ux2_holds, "XX", b'X', 2);
time_sym!(c11_time_ux3_holds, "XXX", b'X', 3);
time_sym!(c11_time_ux4_holds, "XXXX", b'X', 4);
time_sym!(c11_time_ux5_holds, "XXXXX", b'X', 5);
time_sym!(c11_time_ux6_holds, "XXXXXX", b'X', 6);
time_sym!(c11_time_ux7_holds, "XXXXXXX", b'X', 7);
time_sym!(c11_time_x1_holds, "x", b'x', 1);
time_sym!(c11_time_x2_holds, "xx", b'x', 2);
time_sym!(c11_time_x3_holds, "xxx", b'x', 3);
time_sym!(c11_time_x4_holds, "xxxx", b'x', 4);
time_sym!(c11_time_x5_holds, "xxxxx", b'x', 5);
time_sym!(c11_time_x6_holds, "xxxxxx", b'x', 6);
time_sym!(c11_time_x7_holds, "xxxxxxx", b'x', 7);
