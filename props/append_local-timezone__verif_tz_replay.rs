//! native replay of Kani counterexamples for the TZif reader (C18/C19); appended to the copy of src/local/timezone.rs
use super::*;
use crate::local::transition_rule::TransitionRule;

fn v1_file(t: usize, n: usize, cut: usize, body: &[u8]) -> Vec<u8> {
    let mut f = vec![0u8; 44];
    f[0] = b'T'; f[1] = b'Z'; f[2] = b'i'; f[3] = b'f';
    f[32..36].copy_from_slice(&(t as u32).to_be_bytes());
    f[36..40].copy_from_slice(&(n as u32).to_be_bytes());
    f.extend_from_slice(body);
    let keep = 44 + t * 5 + n * 6 - cut;
    f.truncate(keep);
    f
}
/// C19: from_tzif returns; an accepted file resolves the timestamp
pub fn c19_replay_holds(t: u32, n: u32, cut: u32, body: &[u8], ts: i64) {
    crate::verif_props::common::assume(body.len() == (t * 5 + n * 6) as usize);
    let f = v1_file(t as usize, n as usize, cut as usize, body);
    if let Ok(tz) = TimeZone::from_tzif(&f) {
        let _ = tz.to_local_time_type(ts).utoff;
    }
}
/// C18 (table only): latest transition at or before ts, first type before the first transition
pub fn c18_replay_holds(t: u32, n: u32, body: &[u8], ts: i64) {
    let (t, n) = (t as usize, n as usize);
    crate::verif_props::common::assume(body.len() == t * 5 + n * 6 && n >= 1);
    let time = |i: usize| i32::from_be_bytes([body[4 * i], body[4 * i + 1], body[4 * i + 2], body[4 * i + 3]]) as i64;
    let idx = |i: usize| body[4 * t + i] as usize;
    let utoff = |i: usize| { let o = 5 * t + 6 * i; i32::from_be_bytes([body[o], body[o + 1], body[o + 2], body[o + 3]]) };
    for i in 0..t {
        crate::verif_props::common::assume(idx(i) < n);
        if i > 0 { crate::verif_props::common::assume(time(i - 1) < time(i)); }
    }
    let tz = TimeZone::from_tzif(&v1_file(t, n, 0, body)).unwrap();
    let mut expect = utoff(0);
    for i in 0..t { if time(i) <= ts { expect = utoff(idx(i)); } }
    assert!(tz.to_local_time_type(ts).utoff == expect);
}
/// C18: past the last transition the (fixed-offset) footer rule decides
pub fn c18_state_replay_holds(t0: i64, t1: i64, u0: i32, u1: i32, ur: i32, ts: i64) {
    crate::verif_props::common::assume(t0 < t1 && ur == u1);
    let tz = TimeZone {
        transitions: vec![Transition::new(t0, 0), Transition::new(t1, 1)],
        local_time_types: vec![LocalTimeType::new(u0, false), LocalTimeType::new(u1, true)],
        extra_rule: Some(TransitionRule::Fixed(LocalTimeType::new(ur, false))),
    };
    let expect = if ts >= t1 { ur } else { u0 };
    assert!(tz.to_local_time_type(ts).utoff == expect);
}
