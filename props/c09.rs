//! C09 Setting or clearing one field changes exactly that field, in local time
//!
//! Local reading: L = instant + offset; local day = floor(L / 24h), time of day = L mod 24h; the local date is
//! days_to_date(local day), quantified as consistent tuples (bind_days_to_date, see C07). A setter's result is
//! characterised completely: its local day is the closed-form day count of the edited triple and its local time
//! of day is the edited time of day -- so the edited field reads the new value and every coarser field and finer
//! remainder keeps its value (C01/C10 turn "same local day / time of day" into "same getters").
use super::common::*;
use crate::errors::AstrolabeError;
use crate::{Date, DateTime, DateUtilities, Time, TimeUtilities};

fn consistent(d: i64, y: i32, m: u32, dd: u32) -> bool {
    y >= MIN_Y && y <= MAX_Y && spec_valid(y, m, dd) && spec_rd(y, m, dd) == d
}
fn margin(d: i32) -> bool { d > i32::MIN + 1 && d < i32::MAX - 1 }
const H: i128 = 3_600_000_000_000;
const MI: i128 = 60_000_000_000;

// ------------------------------------------------------------------ DateTime: date setters
macro_rules! dt_date_setter {
    ($name:ident, $method:ident, $vty:ty, |$y:ident, $m:ident, $dd:ident, $v:ident| $triple:expr) => {
        pub fn $name(d: i32, n: u64, off: i32, y: i32, m: u32, dd: u32, v: $vty) {
            assume(n < NPD as u64); assume(off > -86_400); assume(off < 86_400); assume(in_range(local(d, n, off))); // the receiver's local reading is representable (no margin: the range ends are included)
            let ld = local_day(d, n, off);
            let nod = local_nod(d, n, off);
            assume(consistent(ld, y, m, dd));
            bind_days_to_date(ld as i32, y, m, dd);
            let ($y, $m, $dd, $v) = (y, m, dd, v);
            let (ty, tm, td): (i32, u32, u32) = $triple;
            let ok = spec_valid(ty, tm, td) && spec_in_range(ty, tm, td);
            // the edited local date must also be representable as a UTC instant (matters only on the two edge days)
            let target = spec_rd(ty, tm, td) as i128 * NPD + nod - off as i128 * NPS;
            match dt(d, n, off).$method(v) {
                Ok(r) => {
                    assert!(ok);
                    assert!(r.nanoseconds < NPD as u64 && off_secs(r.offset) == off);
                    assert!(local_day(r.days, r.nanoseconds, off) == spec_rd(ty, tm, td));
                    assert!(local_nod(r.days, r.nanoseconds, off) == nod);
                }
                Err(AstrolabeError::OutOfRange(_)) => assert!(!ok || !in_range(target)),
                Err(_) => assert!(false),
            }
        }
    };
}
dt_date_setter!(c09_dt_set_year_holds, set_year, i32, |y, m, dd, v| (v, m, dd));
dt_date_setter!(c09_dt_set_month_holds, set_month, u32, |y, m, dd, v| (y, v, dd));
dt_date_setter!(c09_dt_set_day_holds, set_day, u32, |y, m, dd, v| (y, m, v));

pub fn c09_dt_set_day_of_year_holds(d: i32, n: u64, off: i32, y: i32, m: u32, dd: u32, v: u32) {
    assume(n < NPD as u64); assume(off > -86_400); assume(off < 86_400); assume(in_range(local(d, n, off))); // the receiver's local reading is representable (no margin: the range ends are included)
    let ld = local_day(d, n, off);
    let nod = local_nod(d, n, off);
    assume(consistent(ld, y, m, dd));
    bind_days_to_date(ld as i32, y, m, dd);
    let tday = spec_rd(y, 1, 1) + v as i64 - 1;
    let ok = v >= 1 && v as i64 <= spec_ylen(y) && tday >= i32::MIN as i64 && tday <= i32::MAX as i64;
    let target = tday as i128 * NPD + nod - off as i128 * NPS;
    match dt(d, n, off).set_day_of_year(v) {
        Ok(r) => {
            assert!(ok && r.nanoseconds < NPD as u64 && off_secs(r.offset) == off);
            assert!(local_day(r.days, r.nanoseconds, off) == tday && local_nod(r.days, r.nanoseconds, off) == nod);
        }
        Err(AstrolabeError::OutOfRange(_)) => assert!(!ok || !in_range(target)),
        Err(_) => assert!(false),
    }
}

// ------------------------------------------------------------------ DateTime: time setters (flat arithmetic)
macro_rules! dt_time_setter {
    ($name:ident, $method:ident, $max:expr, |$nod:ident, $v:ident| $newnod:expr) => {
        pub fn $name(d: i32, n: u64, off: i32, v: u32) {
            assume(n < NPD as u64); assume(off > -86_400); assume(off < 86_400); assume(in_range(local(d, n, off))); // range ends included
            let ld = local_day(d, n, off);
            let $nod = local_nod(d, n, off);
            let $v = v as i128;
            match dt(d, n, off).$method(v) {
                Ok(r) => {
                    assert!(v <= $max && r.nanoseconds < NPD as u64 && off_secs(r.offset) == off);
                    assert!(local_day(r.days, r.nanoseconds, off) == ld);
                    assert!(local_nod(r.days, r.nanoseconds, off) == $newnod);
                }
                // refused when the value is out of range, or when the edited local time is not representable as a UTC instant (range ends only)
                Err(AstrolabeError::OutOfRange(_)) => assert!(v > $max || !in_range(ld as i128 * NPD + $newnod - off as i128 * NPS)),
                Err(_) => assert!(false),
            }
        }
    };
}
dt_time_setter!(c09_dt_set_hour_holds, set_hour, 23, |nod, v| v * H + nod % H);
dt_time_setter!(c09_dt_set_minute_holds, set_minute, 59, |nod, v| nod / H * H + v * MI + nod % MI);
dt_time_setter!(c09_dt_set_second_holds, set_second, 59, |nod, v| nod / MI * MI + v * NPS + nod % NPS);
dt_time_setter!(c09_dt_set_milli_holds, set_milli, 999, |nod, v| nod / NPS * NPS + v * 1_000_000 + nod % 1_000_000);
dt_time_setter!(c09_dt_set_micro_holds, set_micro, 999_999, |nod, v| nod / NPS * NPS + v * 1_000 + nod % 1_000);
dt_time_setter!(c09_dt_set_nano_holds, set_nano, 999_999_999, |nod, v| nod / NPS * NPS + v);

// ------------------------------------------------------------------ DateTime: clear_until_*
macro_rules! dt_clear_time {
    ($name:ident, $method:ident, |$nod:ident| $newnod:expr) => {
        pub fn $name(d: i32, n: u64, off: i32) {
            assume(n < NPD as u64); assume(off > -86_400); assume(off < 86_400); assume(margin(d));
            let ld = local_day(d, n, off);
            let $nod = local_nod(d, n, off);
            let r = dt(d, n, off).$method();
            assert!(r.nanoseconds < NPD as u64 && off_secs(r.offset) == off);
            assert!(local_day(r.days, r.nanoseconds, off) == ld);
            assert!(local_nod(r.days, r.nanoseconds, off) == $newnod);
        }
    };
}
dt_clear_time!(c09_dt_clear_until_hour_holds, clear_until_hour, |nod| 0);
dt_clear_time!(c09_dt_clear_until_minute_holds, clear_until_minute, |nod| nod / H * H);
dt_clear_time!(c09_dt_clear_until_second_holds, clear_until_second, |nod| nod / MI * MI);
dt_clear_time!(c09_dt_clear_until_milli_holds, clear_until_milli, |nod| nod / NPS * NPS);
dt_clear_time!(c09_dt_clear_until_micro_holds, clear_until_micro, |nod| nod / 1_000_000 * 1_000_000);
dt_clear_time!(c09_dt_clear_until_nano_holds, clear_until_nano, |nod| nod / 1_000 * 1_000);

macro_rules! dt_clear_date {
    ($name:ident, $method:ident, |$y:ident, $m:ident| $tday:expr, $exists:expr) => {
        pub fn $name(d: i32, n: u64, off: i32, y: i32, m: u32, dd: u32) {
            assume(n < NPD as u64); assume(off > -86_400); assume(off < 86_400); assume(margin(d));
            let ld = local_day(d, n, off);
            assume(consistent(ld, y, m, dd));
            bind_days_to_date(ld as i32, y, m, dd);
            let ($y, $m) = (y, m);
            let tday: i64 = $tday;
            // the first day of the range is -5879611-06-23: the first of that month / year is not representable
            assume($exists);
            let r = dt(d, n, off).$method();
            assert!(r.nanoseconds < NPD as u64 && off_secs(r.offset) == off);
            assert!(local_day(r.days, r.nanoseconds, off) == tday && local_nod(r.days, r.nanoseconds, off) == 0);
        }
    };
}
dt_clear_date!(c09_dt_clear_until_year_holds, clear_until_year, |y, m| 0, true);
dt_clear_date!(c09_dt_clear_until_month_holds, clear_until_month, |y, m| spec_rd(y, 1, 1), spec_in_range(y, 1, 2));
dt_clear_date!(c09_dt_clear_until_day_holds, clear_until_day, |y, m| spec_rd(y, m, 1), spec_in_range(y, m, 2));

// ------------------------------------------------------------------ Date
pub fn c09_date_setters_holds(d: i32, y: i32, m: u32, dd: u32, vy: i32, v: u32) {
    assume(consistent(d as i64, y, m, dd));
    bind_days_to_date(d, y, m, dd);
    let x = Date { days: d };
    match x.set_year(vy) {
        Ok(r) => assert!(spec_valid(vy, m, dd) && spec_in_range(vy, m, dd) && r.days as i64 == spec_rd(vy, m, dd)),
        Err(AstrolabeError::OutOfRange(_)) => assert!(!(spec_valid(vy, m, dd) && spec_in_range(vy, m, dd))),
        Err(_) => assert!(false),
    }
    match x.set_month(v) {
        Ok(r) => assert!(spec_valid(y, v, dd) && spec_in_range(y, v, dd) && r.days as i64 == spec_rd(y, v, dd)),
        Err(AstrolabeError::OutOfRange(_)) => assert!(!(spec_valid(y, v, dd) && spec_in_range(y, v, dd))),
        Err(_) => assert!(false),
    }
    match x.set_day(v) {
        Ok(r) => assert!(spec_valid(y, m, v) && spec_in_range(y, m, v) && r.days as i64 == spec_rd(y, m, v)),
        Err(AstrolabeError::OutOfRange(_)) => assert!(!(spec_valid(y, m, v) && spec_in_range(y, m, v))),
        Err(_) => assert!(false),
    }
}
pub fn c09_date_clear_holds(d: i32, y: i32, m: u32, dd: u32) {
    assume(consistent(d as i64, y, m, dd));
    bind_days_to_date(d, y, m, dd);
    let x = Date { days: d };
    assert!(x.clear_until_year().days == 0);
    assume(spec_rd(y, m, 1) >= i32::MIN as i64); assume(spec_rd(y, 1, 1) >= i32::MIN as i64);
    assert!(x.clear_until_month().days as i64 == spec_rd(y, 1, 1));
    assert!(x.clear_until_day().days as i64 == spec_rd(y, m, 1));
}

// ------------------------------------------------------------------ Time (modulo 24 h)
fn tnod(n: u64, off: i32) -> i128 { fmod128(n as i128 + off as i128 * NPS, NPD) }
macro_rules! time_setter {
    ($name:ident, $method:ident, $max:expr, |$nod:ident, $v:ident| $newnod:expr) => {
        pub fn $name(n: u64, off: i32, v: u32) {
            assume(n < NPD as u64); assume(off > -86_400); assume(off < 86_400);
            let $nod = tnod(n, off);
            let $v = v as i128;
            match tm(n, off).$method(v) {
                Ok(r) => {
                    assert!(v <= $max && r.nanoseconds < NPD as u64 && off_secs(r.offset) == off);
                    assert!(tnod(r.nanoseconds, off) == $newnod);
                }
                Err(AstrolabeError::OutOfRange(_)) => assert!(v > $max),
                Err(_) => assert!(false),
            }
        }
    };
}
time_setter!(c09_time_set_hour_holds, set_hour, 23, |nod, v| v * H + nod % H);
time_setter!(c09_time_set_minute_holds, set_minute, 59, |nod, v| nod / H * H + v * MI + nod % MI);
time_setter!(c09_time_set_second_holds, set_second, 59, |nod, v| nod / MI * MI + v * NPS + nod % NPS);
time_setter!(c09_time_set_milli_holds, set_milli, 999, |nod, v| nod / NPS * NPS + v * 1_000_000 + nod % 1_000_000);
time_setter!(c09_time_set_micro_holds, set_micro, 999_999, |nod, v| nod / NPS * NPS + v * 1_000 + nod % 1_000);
time_setter!(c09_time_set_nano_holds, set_nano, 999_999_999, |nod, v| nod / NPS * NPS + v);
macro_rules! time_clear {
    ($name:ident, $method:ident, |$nod:ident| $newnod:expr) => {
        pub fn $name(n: u64, off: i32) {
            assume(n < NPD as u64); assume(off > -86_400); assume(off < 86_400);
            let $nod = tnod(n, off);
            let r = tm(n, off).$method();
            assert!(r.nanoseconds < NPD as u64 && off_secs(r.offset) == off);
            assert!(tnod(r.nanoseconds, off) == $newnod);
        }
    };
}
time_clear!(c09_time_clear_until_hour_holds, clear_until_hour, |nod| 0);
time_clear!(c09_time_clear_until_minute_holds, clear_until_minute, |nod| nod / H * H);
time_clear!(c09_time_clear_until_second_holds, clear_until_second, |nod| nod / MI * MI);
time_clear!(c09_time_clear_until_milli_holds, clear_until_milli, |nod| nod / NPS * NPS);
time_clear!(c09_time_clear_until_micro_holds, clear_until_micro, |nod| nod / 1_000_000 * 1_000_000);
time_clear!(c09_time_clear_until_nano_holds, clear_until_nano, |nod| nod / 1_000 * 1_000);
