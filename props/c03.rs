//! C03 Unix timestamps and ordering are a faithful linear time line
use super::common::*;
use crate::{Date, DateTime, DateUtilities, Time};

const D1970: i128 = 719_162;
fn ts_inst(ts: i64) -> i128 { (ts as i128 + D1970 * 86_400) * NPS }

pub fn c03_dt_timestamp_roundtrip_holds(ts: i64) {
    assume(in_range(ts_inst(ts)));
    let x = DateTime::from_timestamp(ts);
    assert!(x.nanoseconds < NPD as u64 && inst_dt(&x) == ts_inst(ts) && off_secs(x.offset) == 0);
    assert!(x.timestamp() == ts);
}
pub fn c03_dt_from_timestamp_mustpanic(ts: i64) {
    assume(!in_range(ts_inst(ts)));
    let _ = DateTime::from_timestamp(ts);
}
pub fn c03_dt_timestamp_of_any_holds(d: i32, n: u64, off: i32) {
    assume(n < NPD as u64);
    // the timestamp is the floor of the instant in seconds since 1970, whatever the offset
    let t = dt(d, n, off).timestamp();
    assert!(t as i128 == fdiv128(inst(d, n), NPS) - D1970 * 86_400);
}
pub fn c03_date_timestamp_roundtrip_holds(ts: i64) {
    let day = fdiv128(ts as i128, 86_400) + D1970;
    assume(day >= i32::MIN as i128); assume(day <= i32::MAX as i128);
    let x = Date::from_timestamp(ts);
    assert!(x.days as i128 == day);
    assert!(x.timestamp() as i128 == 86_400 * fdiv128(ts as i128, 86_400));
}
pub fn c03_date_from_timestamp_mustpanic(ts: i64) {
    let day = fdiv128(ts as i128, 86_400) + D1970;
    assume(!(day >= i32::MIN as i128 && day <= i32::MAX as i128));
    let _ = Date::from_timestamp(ts);
}
pub fn c03_epoch_holds(z: u8) {
    let x = DateTime::from_timestamp(0);
    assert!(x.days == 719_162 && x.nanoseconds == 0);
    assert!(Date::from_timestamp(0).days == 719_162);
    assert!(spec_rd(1970, 1, 1) == 719_162);
}
pub fn c03_dt_order_holds(d1: i32, n1: u64, o1: i32, d2: i32, n2: u64, o2: i32) {
    assume(n1 < NPD as u64); assume(n2 < NPD as u64);
    let a = dt(d1, n1, o1);
    let b = dt(d2, n2, o2);
    let (ia, ib) = (inst(d1, n1), inst(d2, n2));
    assert!((a == b) == (ia == ib));
    assert!((a != b) == (ia != ib));
    assert!((a < b) == (ia < ib));
    assert!((a <= b) == (ia <= ib));
    assert!((a > b) == (ia > ib));
    assert!((a >= b) == (ia >= ib));
    assert!(a.cmp(&b) == ia.cmp(&ib));
    assert!(a.partial_cmp(&b) == Some(ia.cmp(&ib)));
}
pub fn c03_date_order_holds(d1: i32, d2: i32) {
    let a = Date { days: d1 };
    let b = Date { days: d2 };
    assert!((a == b) == (d1 == d2) && (a < b) == (d1 < d2) && (a <= b) == (d1 <= d2) && (a > b) == (d1 > d2) && (a >= b) == (d1 >= d2));
    assert!(a.cmp(&b) == d1.cmp(&d2));
}
pub fn c03_time_order_holds(n1: u64, o1: i32, n2: u64, o2: i32) {
    assume(n1 < NPD as u64); assume(n2 < NPD as u64);
    let a = tm(n1, o1);
    let b = tm(n2, o2);
    assert!((a == b) == (n1 == n2) && (a < b) == (n1 < n2) && (a <= b) == (n1 <= n2) && (a > b) == (n1 > n2) && (a >= b) == (n1 >= n2));
    assert!(a.cmp(&b) == n1.cmp(&n2));
}
// ---- the two kernels every DateTime operation is built from meet their contracts (used as abstractions elsewhere)
use crate::errors::AstrolabeError;
use crate::util::time::convert::{days_nanos_to_nanos, nanos_to_days_nanos};
pub fn c03_days_nanos_to_nanos_contract_holds(d: i32, n: u64) {
    assert!(contract_days_nanos_to_nanos(d, n, days_nanos_to_nanos(d, n)));
}
pub fn c03_nanos_to_days_nanos_contract_holds(t: i128) {
    match nanos_to_days_nanos(t) {
        Ok((d, n)) => assert!(contract_nanos_to_days_nanos(t, true, d, n)),
        Err(AstrolabeError::OutOfRange(_)) => assert!(contract_nanos_to_days_nanos(t, false, 0, 0)),
        Err(_) => assert!(false),
    }
}
use crate::util::time::convert::nanos_to_time;
pub fn c03_nanos_to_time_contract_holds(n: u64) {
    let (h, m, s) = nanos_to_time(n);
    assert!(contract_nanos_to_time(n, h, m, s));
}
