//! Sanity obligations on the oracles themselves (no library code involved), so that a wrong oracle cannot
//! silently become the standard.
use super::common::*;

fn succ(y: i32, m: u32, d: u32) -> (i32, u32, u32) {
    if d < spec_mdays(y, m) { (y, m, d + 1) }
    else if m < 12 { (y, m + 1, 1) }
    else if y == -1 { (1, 1, 1) }
    else { (y + 1, 1, 1) }
}
/// the closed-form day count advances by exactly one from each valid date to its calendar successor
pub fn oracle_rd_succ_holds(y: i32, m: u32, d: u32) {
    assume(y >= -5_879_613); assume(y <= 5_879_613);
    assume(spec_valid(y, m, d));
    let (y2, m2, d2) = succ(y, m, d);
    assert!(spec_valid(y2, m2, d2));
    assert!(spec_rd(y2, m2, d2) == spec_rd(y, m, d) + 1);
}
/// strictly monotone in lexicographic order on valid triples (hence injective: one valid date per day)
pub fn oracle_rd_monotone_holds(y1: i32, m1: u32, d1: u32, y2: i32, m2: u32, d2: u32) {
    assume(y1 >= -5_879_613); assume(y1 <= 5_879_613); assume(y2 >= -5_879_613); assume(y2 <= 5_879_613);
    assume(spec_valid(y1, m1, d1)); assume(spec_valid(y2, m2, d2));
    assume(y1 < y2 || (y1 == y2 && (m1 < m2 || (m1 == m2 && d1 < d2))));
    assert!(spec_rd(y1, m1, d1) < spec_rd(y2, m2, d2));
}
/// anchors: 0001-01-01 = 0, 1970-01-01 = 719162, -0001-12-31 = -1, the range ends are i32::MIN / i32::MAX
pub fn oracle_rd_anchors_holds(z: u8) {
    assert!(spec_rd(1, 1, 1) == 0);
    assert!(spec_rd(1970, 1, 1) == 719_162);
    assert!(spec_rd(-1, 12, 31) == -1);
    assert!(spec_rd(2000, 3, 1) == 730_179);
    assert!(spec_rd(-5_879_611, 6, 23) == i32::MIN as i64);
    assert!(spec_rd(5_879_611, 7, 12) == i32::MAX as i64);
    assert!(spec_in_range(-5_879_611, 6, 23) && !spec_in_range(-5_879_611, 6, 22));
    assert!(spec_in_range(5_879_611, 7, 12) && !spec_in_range(5_879_611, 7, 13));
    assert!(spec_is_leap(2000) && !spec_is_leap(1900) && spec_is_leap(2024) && spec_is_leap(-1) && spec_is_leap(-5) && !spec_is_leap(-4) && !spec_is_leap(-101) && spec_is_leap(-401));
}
/// year length agrees with the distance between consecutive 1 Januaries
pub fn oracle_ylen_holds(y: i32) {
    assume(y >= -5_879_613); assume(y <= 5_879_612); assume(y != 0);
    let ny = if y == -1 { 1 } else { y + 1 };
    assert!(spec_rd(ny, 1, 1) - spec_rd(y, 1, 1) == spec_ylen(y));
}
/// the triple-based weekday and day-of-year forms agree with the closed-form day count
pub fn oracle_wd_ymd_holds(y: i32, m: u32, d: u32) {
    assume(y >= -5_879_613); assume(y <= 5_879_613);
    assume(spec_valid(y, m, d));
    assert!(spec_iso_wd_ymd(y, m, d) == spec_iso_wd(spec_rd(y, m, d)));
    assert!(spec_doy(y, m, d) == spec_rd(y, m, d) - spec_rd(y, 1, 1) + 1);
    assert!(spec_doy(y, m, d) >= 1 && spec_doy(y, m, d) <= spec_ylen(y));
}
/// the floor-division helpers mean floor division (the executor encodes calls to them directly as (q, r) pairs;
/// this obligation runs with that shortcut switched off and checks the Rust definitions)
pub fn oracle_floor_helpers_holds(a: i64, b: i128) {
    let q = floor_div(a, 7);
    let r = floor_mod(a, 7);
    assert!(q * 7 + r == a && r >= 0 && r < 7);
    let q4 = floor_div(a, 400);
    assert!(q4 * 400 <= a && a < q4 * 400 + 400);
    let q2 = fdiv128(b, NPD);
    let r2 = fmod128(b, NPD);
    assert!(q2 * NPD + r2 == b && r2 >= 0 && r2 < NPD);
}
pub fn oracle_rd_bound_holds(y: i32, m: u32, d: u32) {
    assert!(contract_spec_rd_bound(y, m, d, spec_rd(y, m, d)));
}
pub fn oracle_rd_month_lemma_holds(y: i32, m: u32) {
    assume(1 <= m && m <= 12);
    assert!(lemma_rd_month(y, m));
}
pub fn oracle_rd_inner_lemma_holds(y: i32) {
    assert!(lemma_rd_inner(y));
}
