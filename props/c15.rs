//! C15 Fallible constructors accept exactly the valid inputs, reject the rest
use super::common::*;
use crate::errors::{AstrolabeError, OutOfRange};
use crate::{Date, DateTime, DateUtilities, Offset, Time, TimeUtilities};

/// an error that states a range states one that excludes the rejected value
fn range_excludes(e: &OutOfRange) -> bool {
    e.custom.is_some() || e.value < e.min || e.value > e.max
}
fn range_contains(e: &OutOfRange, v: i128) -> bool {
    e.custom.is_some() || (e.min <= v && v <= e.max)
}
fn hms_ok(h: u32, m: u32, s: u32) -> bool { h <= 23 && m <= 59 && s <= 59 }
fn secs_of(h: u32, m: u32, s: u32) -> i128 { h as i128 * 3600 + m as i128 * 60 + s as i128 }

pub fn c15_dt_from_ymdhms_holds(y: i32, mo: u32, d: u32, h: u32, mi: u32, s: u32) {
    let ok = spec_valid(y, mo, d) && spec_in_range(y, mo, d) && hms_ok(h, mi, s);
    match DateTime::from_ymdhms(y, mo, d, h, mi, s) {
        Ok(r) => assert!(ok && r.days as i64 == spec_rd(y, mo, d) && r.nanoseconds as i128 == secs_of(h, mi, s) * NPS && off_secs(r.offset) == 0),
        Err(AstrolabeError::OutOfRange(e)) => assert!(!ok && range_excludes(&e)),
        Err(_) => assert!(false),
    }
}
pub fn c15_dt_from_hms_holds(h: u32, mi: u32, s: u32) {
    match DateTime::from_hms(h, mi, s) {
        Ok(r) => assert!(hms_ok(h, mi, s) && r.days == 0 && r.nanoseconds as i128 == secs_of(h, mi, s) * NPS),
        Err(AstrolabeError::OutOfRange(e)) => assert!(!hms_ok(h, mi, s) && range_excludes(&e)),
        Err(_) => assert!(false),
    }
}
pub fn c15_time_from_hms_holds(h: u32, mi: u32, s: u32) {
    match Time::from_hms(h, mi, s) {
        Ok(r) => assert!(hms_ok(h, mi, s) && r.nanoseconds as i128 == secs_of(h, mi, s) * NPS),
        Err(AstrolabeError::OutOfRange(e)) => assert!(!hms_ok(h, mi, s) && range_excludes(&e)),
        Err(_) => assert!(false),
    }
}
pub fn c15_time_from_seconds_holds(s: u32, s2: u32) {
    match Time::from_seconds(s) {
        Ok(r) => assert!(s < 86_400 && r.nanoseconds as i128 == s as i128 * NPS),
        Err(AstrolabeError::OutOfRange(e)) => {
            assert!(s >= 86_400 && range_excludes(&e) && e.value == s as i128);
            if Time::from_seconds(s2).is_ok() { assert!(range_contains(&e, s2 as i128)); }
        }
        Err(_) => assert!(false),
    }
}
pub fn c15_time_from_nanos_holds(n: u64, n2: u64) {
    match Time::from_nanos(n) {
        Ok(r) => assert!((n as i128) < NPD && r.nanoseconds == n),
        Err(AstrolabeError::OutOfRange(e)) => {
            assert!(n as i128 >= NPD && range_excludes(&e) && e.value == n as i128);
            if Time::from_nanos(n2).is_ok() { assert!(range_contains(&e, n2 as i128)); }
        }
        Err(_) => assert!(false),
    }
}
pub fn c15_offset_from_seconds_holds(s: i32, s2: i32) {
    match Offset::from_seconds(s) {
        Ok(o) => assert!(valid_off(s) && off_secs(o) == s),
        Err(AstrolabeError::OutOfRange(e)) => {
            assert!(!valid_off(s) && range_excludes(&e) && e.value == s as i128);
            if Offset::from_seconds(s2).is_ok() { assert!(range_contains(&e, s2 as i128)); }
        }
        Err(_) => assert!(false),
    }
}
pub fn c15_offset_from_hms_holds(h: i32, m: u32, s: u32) {
    let ok = h >= -23 && h <= 23 && m <= 59 && s <= 59;
    match Offset::from_hms(h, m, s) {
        Ok(_) => assert!(ok),
        Err(AstrolabeError::OutOfRange(e)) => assert!(!ok && range_excludes(&e)),
        Err(_) => assert!(false),
    }
}
/// from_ymd: the stated range excludes the rejected value and contains every value accepted in the same context
pub fn c15_date_from_ymd_ranges_holds(y: i32, m: u32, d: u32, v: u32, vy: i32) {
    match Date::from_ymd(y, m, d) {
        Ok(r) => assert!(spec_valid(y, m, d) && spec_in_range(y, m, d) && r.days as i64 == spec_rd(y, m, d)),
        Err(AstrolabeError::OutOfRange(e)) => {
            assert!(!(spec_valid(y, m, d) && spec_in_range(y, m, d)));
            assert!(range_excludes(&e));
            if e.custom.is_none() {
                if e.name == "year" {
                    assert!(e.value == y as i128);
                    if Date::from_ymd(vy, m, d).is_ok() { assert!(range_contains(&e, vy as i128)); }
                } else if e.name == "month" {
                    assert!(e.value == m as i128);
                    if Date::from_ymd(y, v, d).is_ok() { assert!(range_contains(&e, v as i128)); }
                } else {
                    assert!(e.name == "day" && e.value == d as i128);
                    if Date::from_ymd(y, m, v).is_ok() { assert!(range_contains(&e, v as i128)); }
                }
            }
        }
        Err(_) => assert!(false),
    }
}
// ---- time setters (Time and DateTime): Ok exactly for the field's range; never a value from a wrapped argument
macro_rules! time_setter {
    ($tname:ident, $dname:ident, $method:ident, $max:expr) => {
        pub fn $tname(n: u64, off: i32, v: u32, v2: u32) {
            assume(n < NPD as u64); assume(off > -86_400); assume(off < 86_400);
            match tm(n, off).$method(v) {
                Ok(r) => assert!(v <= $max && r.nanoseconds < NPD as u64),
                Err(AstrolabeError::OutOfRange(e)) => {
                    assert!(v > $max && range_excludes(&e) && e.value == v as i128);
                    if tm(n, off).$method(v2).is_ok() { assert!(range_contains(&e, v2 as i128)); }
                }
                Err(_) => assert!(false),
            }
        }
        pub fn $dname(d: i32, n: u64, off: i32, v: u32, v2: u32) {
            assume(n < NPD as u64); assume(off > -86_400); assume(off < 86_400); assume(d > i32::MIN); assume(d < i32::MAX);
            match dt(d, n, off).$method(v) {
                Ok(r) => assert!(v <= $max && r.nanoseconds < NPD as u64),
                Err(AstrolabeError::OutOfRange(e)) => {
                    assert!(v > $max && range_excludes(&e) && e.value == v as i128);
                    if dt(d, n, off).$method(v2).is_ok() { assert!(range_contains(&e, v2 as i128)); }
                }
                Err(_) => assert!(false),
            }
        }
    };
}
time_setter!(c15_time_set_hour_holds, c15_dt_set_hour_holds, set_hour, 23);
time_setter!(c15_time_set_minute_holds, c15_dt_set_minute_holds, set_minute, 59);
time_setter!(c15_time_set_second_holds, c15_dt_set_second_holds, set_second, 59);
time_setter!(c15_time_set_milli_holds, c15_dt_set_milli_holds, set_milli, 999);
time_setter!(c15_time_set_micro_holds, c15_dt_set_micro_holds, set_micro, 999_999);
time_setter!(c15_time_set_nano_holds, c15_dt_set_nano_holds, set_nano, 999_999_999);

// ---- date setters on Date (days_to_date enters through its contract)
use crate::util::date::convert::days_to_date;
pub fn c15_date_set_year_holds(d: i32, v: i32) {
    let (_, m, dd) = days_to_date(d);
    let ok = spec_valid(v, m, dd) && spec_in_range(v, m, dd);
    match (Date { days: d }).set_year(v) {
        Ok(r) => assert!(ok && r.days as i64 == spec_rd(v, m, dd)),
        Err(AstrolabeError::OutOfRange(e)) => assert!(!ok && range_excludes(&e)),
        Err(_) => assert!(false),
    }
}
pub fn c15_date_set_month_holds(d: i32, v: u32) {
    let (y, _, dd) = days_to_date(d);
    let ok = spec_valid(y, v, dd) && spec_in_range(y, v, dd);
    match (Date { days: d }).set_month(v) {
        Ok(r) => assert!(ok && r.days as i64 == spec_rd(y, v, dd)),
        Err(AstrolabeError::OutOfRange(e)) => assert!(!ok && range_excludes(&e)),
        Err(_) => assert!(false),
    }
}
pub fn c15_date_set_day_holds(d: i32, v: u32) {
    let (y, m, _) = days_to_date(d);
    let ok = spec_valid(y, m, v) && spec_in_range(y, m, v);
    match (Date { days: d }).set_day(v) {
        Ok(r) => assert!(ok && r.days as i64 == spec_rd(y, m, v)),
        Err(AstrolabeError::OutOfRange(e)) => assert!(!ok && range_excludes(&e)),
        Err(_) => assert!(false),
    }
}
pub fn c15_date_set_day_of_year_holds(d: i32, v: u32, v2: u32) {
    let (y, _, _) = days_to_date(d);
    let target = spec_rd(y, 1, 1) + v as i64 - 1;
    let ok = v >= 1 && v as i64 <= spec_ylen(y) && target >= i32::MIN as i64 && target <= i32::MAX as i64;
    match (Date { days: d }).set_day_of_year(v) {
        Ok(r) => assert!(ok && r.days as i64 == target),
        Err(AstrolabeError::OutOfRange(e)) => {
            assert!(!ok && range_excludes(&e));
            if (Date { days: d }).set_day_of_year(v2).is_ok() { assert!(range_contains(&e, v2 as i128)); }
        }
        Err(_) => assert!(false),
    }
}
