//! C02 Weekday, day-of-year and week/quarter fields follow the calendar for every day
use super::common::*;
use crate::errors::AstrolabeError;
use crate::util::date::convert::{days_to_date, days_to_doy, days_to_wday, days_to_wyear};
use crate::util::date::manipulate::set_day_of_year;
use crate::{Date, DateTime, DateUtilities};

pub fn c02_date_weekday_holds(d: i32) {
    assert!(Date { days: d }.weekday() as i64 == spec_weekday(d as i64));
}
pub fn c02_wday_monday_first_holds(d: i32) {
    // the `e` format field with Monday first: 0 = Monday
    assert!(days_to_wday(d, true) as i64 == floor_mod(d as i64, 7));
    assert!(days_to_wday(d, false) as i64 == spec_weekday(d as i64));
}
pub fn c02_datetime_weekday_holds(d: i32, n: u64, off: i32) {
    assume(n < NPD as u64); assume(off > -86_400); assume(off < 86_400);
    assume(in_range(local(d, n, off)));
    assert!(dt(d, n, off).weekday() as i64 == spec_weekday(local_day(d, n, off)));
}
pub fn c02_day_of_year_holds(d: i32) {
    let (y, _, _) = days_to_date(d);
    assert!(Date { days: d }.day_of_year() as i64 == d as i64 - spec_rd(y, 1, 1) + 1);
    assert!(days_to_doy(d) as i64 >= 1 && days_to_doy(d) as i64 <= spec_ylen(y));
}
/// DateTime getters read the local day: same argument to the same calendar function as the Date getter
/// (the calendar function itself is decided for every day above; here it is uninterpreted)
pub fn c02_datetime_day_of_year_holds(d: i32, n: u64, off: i32) {
    assume(n < NPD as u64); assume(off > -86_400); assume(off < 86_400);
    assume(in_range(local(d, n, off)));
    let ld = local_day(d, n, off);
    assert!(dt(d, n, off).day_of_year() == Date { days: ld as i32 }.day_of_year());
}
pub fn c02_week_of_year_holds(d: i32) {
    let (y, m, dd) = days_to_date(d);
    assert!(days_to_wyear(d) as i64 == spec_iso_week(y, m, dd));
}
pub fn c02_quarter_holds(d: i32) {
    // the value rendered by the `q` field: (month - 1) / 3 + 1, in 1..=4
    let m = days_to_date(d).1;
    let q = (m - 1) / 3 + 1;
    assert!(q >= 1 && q <= 4 && (q - 1) * 3 < m && m <= q * 3);
}
/// set_day_of_year(N): the N-th day of the same year, refused when the year has no such day (or it is not representable)
pub fn c02_set_day_of_year_holds(d: i32, doy: u32) {
    let (y, _, _) = days_to_date(d);
    let target = spec_rd(y, 1, 1) + doy as i64 - 1;
    let ok = doy >= 1 && doy as i64 <= spec_ylen(y) && target >= i32::MIN as i64 && target <= i32::MAX as i64;
    match (Date { days: d }).set_day_of_year(doy) {
        Ok(r) => assert!(ok && r.days as i64 == target),
        Err(AstrolabeError::OutOfRange(_)) => assert!(!ok),
        Err(_) => assert!(false),
    }
}
/// the same statement, case-split on the month (the split variable is an extra argument: 12 independent queries)
pub fn c02_week_of_year_by_month_holds(d: i32, mcase: u32) {
    let (y, m, dd) = days_to_date(d);
    assume(m == mcase);
    assert!(days_to_wyear(d) as i64 == spec_iso_week(y, m, dd));
}
// ---- week of year at full range, by periodicity (one 400-year cycle = 146097 days = 20871 weeks exactly)
fn shift400(y: i32) -> i64 { hist(astro(y) + 400) }
/// the calendar decomposition is invariant under a shift by one 400-year cycle (both evaluations expanded)
pub fn c02_d2d_period_holds(d: i32) {
    assume(d <= i32::MAX - 146_097);
    let (y1, m1, d1) = days_to_date(d);
    let (y2, m2, d2) = days_to_date(d + 146_097);
    assert!(y2 as i64 == shift400(y1) && m2 == m1 && d2 == d1);
}
/// the library's week number is invariant under that shift. days_to_date is answered from the bindings: the first
/// by definition of the quantification over consistent tuples, the second by c02_d2d_period_holds.
pub fn c02_wyear_period_holds(d: i32, y: i32, m: u32, dd: u32) {
    assume(d <= i32::MAX - 146_097);
    assume(y >= -5_879_612); assume(y <= 5_879_612 - 400); assume(spec_valid(y, m, dd)); assume(spec_rd(y, m, dd) == d as i64);
    bind_days_to_date(d, y, m, dd);
    bind_days_to_date(d + 146_097, shift400(y) as i32, m, dd);
    assert!(days_to_wyear(d + 146_097) == days_to_wyear(d));
}
/// base cycle: the library's week number is the ISO week for every date of the years 2000..=2399
pub fn c02_wyear_base_holds(d: i32, y: i32, m: u32, dd: u32) {
    assume(y >= 2000); assume(y <= 2399); assume(spec_valid(y, m, dd)); assume(spec_rd(y, m, dd) == d as i64);
    bind_days_to_date(d, y, m, dd);
    assert!(days_to_wyear(d) as i64 == spec_iso_week(y, m, dd));
}
/// so is the oracle
pub fn c02_spec_week_period_holds(y: i32, m: u32, d: u32) {
    assume(y >= -5_879_613); assume(y <= 5_879_613 - 400);
    assume(spec_valid(y, m, d));
    let y2 = shift400(y) as i32;
    assert!(spec_valid(y2, m, d));
    assert!(spec_iso_week(y2, m, d) == spec_iso_week(y, m, d));
}
