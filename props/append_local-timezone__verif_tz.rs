//! C18/C19 Kani harnesses for the binary part of the TZif reader, appended to the copy of src/local/timezone.rs.
//! requires: cfg(kani)
//! One harness per *shape* (header counts and file length concrete, every content byte symbolic).
use super::*;
use crate::local::transition_rule::TransitionRule;

const HDR: usize = 44;
pub fn fmt_stub(_args: std::fmt::Arguments<'_>) -> String { String::new() }

/// writes a version-1 header with the given counts into out[0..44]
fn v1_header(out: &mut [u8], timecnt: u32, typecnt: u32, charcnt: u32) {
    out[0] = b'T'; out[1] = b'Z'; out[2] = b'i'; out[3] = b'f';
    out[4] = 0;
    let mut i = 5;
    while i < 20 { out[i] = 0; i += 1; }
    // isutcnt, isstdcnt, leapcnt = 0
    while i < 32 { out[i] = 0; i += 1; }
    let t = timecnt.to_be_bytes(); let n = typecnt.to_be_bytes(); let c = charcnt.to_be_bytes();
    out[32] = t[0]; out[33] = t[1]; out[34] = t[2]; out[35] = t[3];
    out[36] = n[0]; out[37] = n[1]; out[38] = n[2]; out[39] = n[3];
    out[40] = c[0]; out[41] = c[1]; out[42] = c[2]; out[43] = c[3];
}

macro_rules! hostile_v1 {
    ($name:ident, $t:expr, $n:expr, $cut:expr) => {
        /// C19: any content; the file truncated by $cut bytes: from_tzif returns; an accepted file resolves every timestamp
        #[kani::proof]
        #[kani::unwind(48)]
        #[kani::stub(alloc::fmt::format, fmt_stub)]
        pub fn $name() {
            const BODY: usize = $t * 5 + $n * 6;
            let mut file = [0u8; HDR + BODY];
            v1_header(&mut file, $t as u32, $n as u32, 0);
            let body: [u8; BODY] = kani::any();
            let mut i = 0;
            while i < BODY { file[HDR + i] = body[i]; i += 1; }
            if let Ok(tz) = TimeZone::from_tzif(&file[..HDR + BODY - $cut]) {
                let ts: i64 = kani::any();
                let ltt = tz.to_local_time_type(ts);
                kani::cover!(true, "lookup reached");
                let _ = ltt.utoff;
                std::mem::forget(tz); // drop glue of the vectors is not the subject and is expensive for CBMC
            }
        }
    };
}
hostile_v1!(c19_v1_t0_n0, 0, 0, 0);
hostile_v1!(c19_v1_t0_n1, 0, 1, 0);
hostile_v1!(c19_v1_t0_n1_cut1, 0, 1, 1);
hostile_v1!(c19_v1_t1_n1, 1, 1, 0);
hostile_v1!(c19_v1_t1_n1_cut1, 1, 1, 1);
hostile_v1!(c19_v1_t1_n1_cut7, 1, 1, 7);
hostile_v1!(c19_v1_t2_n1, 2, 1, 0);
hostile_v1!(c19_v1_t2_n2, 2, 2, 0);
hostile_v1!(c19_v1_t2_n2_cut3, 2, 2, 3);

/// C19: a header shorter than 44 bytes or with a wrong magic/version is refused
#[kani::proof]
#[kani::unwind(48)]
#[kani::stub(alloc::fmt::format, fmt_stub)]
pub fn c19_header_any_bytes() {
    let file: [u8; 44] = kani::any();
    kani::assume(file[32] != 0 || file[33] != 0 || file[34] != 0 || file[35] > 0 || file[36] != 0 || file[37] != 0 || file[38] != 0 || file[39] > 0);
    // some count is non-zero: the 44-byte file cannot hold the data block
    let r = TimeZone::from_tzif(&file);
    assert!(r.is_err());
}

macro_rules! lookup_v1 {
    ($name:ident, $t:expr, $n:expr) => {
        /// C18 (table only): the resolved offset is that of the latest transition at or before the timestamp,
        /// the first type before the first transition
        #[kani::proof]
        #[kani::unwind(48)]
        #[kani::stub(alloc::fmt::format, fmt_stub)]
        pub fn $name() {
            const T: usize = $t; const N: usize = $n;
            const BODY: usize = T * 5 + N * 6;
            let mut file = [0u8; HDR + BODY];
            v1_header(&mut file, T as u32, N as u32, 0);
            let times: [i32; T] = kani::any();
            let idx: [u8; T] = kani::any();
            let utoff: [i32; N] = kani::any();
            let mut i = 0;
            while i < T {
                let b = times[i].to_be_bytes();
                file[HDR + 4 * i] = b[0]; file[HDR + 4 * i + 1] = b[1]; file[HDR + 4 * i + 2] = b[2]; file[HDR + 4 * i + 3] = b[3];
                file[HDR + 4 * T + i] = idx[i];
                kani::assume((idx[i] as usize) < N);
                if i > 0 { kani::assume(times[i - 1] < times[i]); }
                i += 1;
            }
            i = 0;
            while i < N {
                let b = utoff[i].to_be_bytes();
                let o = HDR + 5 * T + 6 * i;
                file[o] = b[0]; file[o + 1] = b[1]; file[o + 2] = b[2]; file[o + 3] = b[3];
                file[o + 4] = kani::any(); file[o + 5] = 0;
                i += 1;
            }
            let tz = TimeZone::from_tzif(&file).unwrap();
            let ts: i64 = kani::any();
            // reference: RFC 8536 section 3.2
            let mut expect = utoff[0];
            i = 0;
            while i < T {
                if (times[i] as i64) <= ts { expect = utoff[idx[i] as usize]; }
                i += 1;
            }
            assert!(tz.to_local_time_type(ts).utoff == expect);
            kani::cover!(T > 0 && ts == times[0] as i64, "lookup exactly at a transition instant");
            std::mem::forget(tz);
        }
    };
}
lookup_v1!(c18_v1_lookup_t0_n1, 0, 1);
lookup_v1!(c18_v1_lookup_t1_n2, 1, 2);
lookup_v1!(c18_v1_lookup_t2_n2, 2, 2);
lookup_v1!(c18_v1_lookup_t3_n2, 3, 2);

/// C18: past the last transition the footer's rule decides (fixed-offset rule; state built directly, the footer text is outside this harness)
#[kani::proof]
#[kani::unwind(8)]
#[kani::stub(alloc::fmt::format, fmt_stub)]
pub fn c18_state_lookup_fixed_rule() {
    let t0: i64 = kani::any(); let t1: i64 = kani::any();
    kani::assume(t0 < t1);
    let (u0, u1, ur): (i32, i32, i32) = (kani::any(), kani::any(), kani::any());
    let tz = TimeZone {
        transitions: vec![Transition::new(t0, 0), Transition::new(t1, 1)],
        local_time_types: vec![LocalTimeType::new(u0, false), LocalTimeType::new(u1, true)],
        // "footer consistent with the last transition": the rule's offset is the last transition's type
        extra_rule: Some(TransitionRule::Fixed(LocalTimeType::new(ur, false))),
    };
    kani::assume(ur == u1);
    let ts: i64 = kani::any();
    let expect = if ts >= t1 { ur } else if ts >= t0 { u0 } else { u0 };
    assert!(tz.to_local_time_type(ts).utoff == expect);
    std::mem::forget(tz);
}
