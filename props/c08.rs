//! C08 Clock time is arithmetic modulo 24 h with one canonical value per time of day
use super::common::*;
use crate::errors::AstrolabeError;
use crate::{Offset, Time, TimeUtilities};
use std::time::Duration;

macro_rules! time_unit {
    ($name:ident, $method:ident, $per:expr, $sign:expr) => {
        pub fn $name(n: u64, off: i32, k: u32) {
            assume(n < NPD as u64); assume(off > -86_400); assume(off < 86_400);
            let r = tm(n, off).$method(k);
            assert!(r.nanoseconds < NPD as u64);
            assert!(r.nanoseconds as i128 == fmod128(n as i128 + ($sign as i128) * (k as i128) * ($per as i128), NPD));
            assert!(off_secs(r.offset) == off);
        }
    };
}
time_unit!(c08_add_hours_holds, add_hours, 3_600_000_000_000i128, 1);
time_unit!(c08_sub_hours_holds, sub_hours, 3_600_000_000_000i128, -1);
time_unit!(c08_add_minutes_holds, add_minutes, 60_000_000_000i128, 1);
time_unit!(c08_sub_minutes_holds, sub_minutes, 60_000_000_000i128, -1);
time_unit!(c08_add_seconds_holds, add_seconds, 1_000_000_000i128, 1);
time_unit!(c08_sub_seconds_holds, sub_seconds, 1_000_000_000i128, -1);
time_unit!(c08_add_millis_holds, add_millis, 1_000_000i128, 1);
time_unit!(c08_sub_millis_holds, sub_millis, 1_000_000i128, -1);
time_unit!(c08_add_micros_holds, add_micros, 1_000i128, 1);
time_unit!(c08_sub_micros_holds, sub_micros, 1_000i128, -1);
time_unit!(c08_add_nanos_holds, add_nanos, 1i128, 1);
time_unit!(c08_sub_nanos_holds, sub_nanos, 1i128, -1);

macro_rules! time_time {
    ($name:ident, $op:tt, $sign:expr) => {
        pub fn $name(n: u64, off: i32, n2: u64, off2: i32) {
            assume(n < NPD as u64); assume(n2 < NPD as u64); assume(off > -86_400); assume(off < 86_400); assume(off2 > -86_400); assume(off2 < 86_400);
            let r = tm(n, off) $op tm(n2, off2);
            assert!(r.nanoseconds < NPD as u64);
            assert!(r.nanoseconds as i128 == fmod128(n as i128 + ($sign as i128) * n2 as i128, NPD));
            assert!(off_secs(r.offset) == off);
        }
    };
}
time_time!(c08_time_plus_time_holds, +, 1);
time_time!(c08_time_minus_time_holds, -, -1);

macro_rules! time_duration {
    ($name:ident, $op:tt, $sign:expr) => {
        pub fn $name(n: u64, off: i32, secs: u64, ns: u32) {
            assume(n < NPD as u64); assume(off > -86_400); assume(off < 86_400); assume(ns < 1_000_000_000);
            let r = tm(n, off) $op Duration::new(secs, ns);
            assert!(r.nanoseconds < NPD as u64);
            assert!(r.nanoseconds as i128 == fmod128(n as i128 + ($sign as i128) * (secs as i128 * NPS + ns as i128), NPD));
            assert!(off_secs(r.offset) == off);
        }
    };
}
time_duration!(c08_time_plus_duration_holds, +, 1);
time_duration!(c08_time_minus_duration_holds, -, -1);

/// constructors accept exactly the values inside the day and build the canonical value
pub fn c08_from_hms_holds(h: u32, m: u32, s: u32) {
    let ok = h <= 23 && m <= 59 && s <= 59;
    match Time::from_hms(h, m, s) {
        Ok(t) => assert!(ok && t.nanoseconds as i128 == (h as i128 * 3600 + m as i128 * 60 + s as i128) * NPS && off_secs(t.offset) == 0),
        Err(AstrolabeError::OutOfRange(_)) => assert!(!ok),
        Err(_) => assert!(false),
    }
}
pub fn c08_from_seconds_holds(s: u32) {
    match Time::from_seconds(s) {
        Ok(t) => assert!(s < 86_400 && t.nanoseconds as i128 == s as i128 * NPS && off_secs(t.offset) == 0),
        Err(AstrolabeError::OutOfRange(_)) => assert!(s >= 86_400),
        Err(_) => assert!(false),
    }
}
pub fn c08_from_nanos_holds(n: u64) {
    match Time::from_nanos(n) {
        Ok(t) => assert!((n as i128) < NPD && t.nanoseconds == n && off_secs(t.offset) == 0),
        Err(AstrolabeError::OutOfRange(_)) => assert!(n as i128 >= NPD),
        Err(_) => assert!(false),
    }
}
/// getters read the canonical value; equality is equality of the time of day
pub fn c08_readback_holds(n: u64) {
    assume((n as i128) < NPD);
    let t = tm(n, 0);
    assert!(t.as_nanos() == n && t.as_seconds() as u64 == n / 1_000_000_000);
    let (h, m, s) = t.as_hms();
    assert!(h as u64 == n / 3_600_000_000_000 && m as u64 == n / 60_000_000_000 % 60 && s as u64 == n / 1_000_000_000 % 60);
    assert!(t.hour() == h && t.minute() == m && t.second() == s);
    assert!(t.milli() as u64 == n % 1_000_000_000 / 1_000_000 && t.micro() as u64 == n % 1_000_000_000 / 1_000 && t.nano() as u64 == n % 1_000_000_000);
}
/// Time taken from a DateTime is the DateTime's time of day, offset carried over
pub fn c08_from_datetime_holds(d: i32, n: u64, off: i32) {
    assume(n < NPD as u64); assume(off > -86_400); assume(off < 86_400);
    let t = Time::from(dt(d, n, off));
    assert!(t.nanoseconds == n && off_secs(t.offset) == off);
    let t2 = Time::from(&dt(d, n, off));
    assert!(t2.nanoseconds == n && off_secs(t2.offset) == off);
}
