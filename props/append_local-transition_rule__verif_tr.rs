//! C18/C19 through Engine M: the footer rule. Appended to the copy of src/local/transition_rule.rs (private fields of the rule).
use super::*;
use crate::verif_props::common::*;

/// what the footer parser promises about an accepted rule day (the link between "accepted" and "every lookup succeeds")
pub fn rule_day_valid(r: &RuleDay) -> bool {
    match r {
        RuleDay::JulianDayWithoutLeap(d) => 1 <= *d && *d <= 365,
        RuleDay::JulianDayWithLeap(d) => *d <= 365,
        RuleDay::MonthWeekDay(m, w, d) => 1 <= *m && *m <= 12 && 1 <= *w && *w <= 5 && *d <= 6,
    }
}
pub const RULE_TIME_MAX: i32 = 167 * 3600 + 59 * 60 + 59;
pub const UTOFF_MAX: i32 = 24 * 3600 + 59 * 60 + 59 + 3600;
pub fn alt_valid(a: &AlternateLocalTimeType) -> bool {
    rule_day_valid(&a.std_end) && rule_day_valid(&a.dst_end)
        && -RULE_TIME_MAX <= a.std_end_time as i32 && a.std_end_time as i32 <= RULE_TIME_MAX
        && -RULE_TIME_MAX <= a.dst_end_time as i32 && a.dst_end_time as i32 <= RULE_TIME_MAX
        && -UTOFF_MAX <= a.std.utoff && a.std.utoff <= UTOFF_MAX && -UTOFF_MAX <= a.dst.utoff && a.dst.utoff <= UTOFF_MAX
}
/// the instant of a rule day as the lookup computes it, through the method the lookup itself calls
pub fn rule_instant(r: RuleDay, time: i32, ts: i64) -> i64 {
    let a = AlternateLocalTimeType::new(LocalTimeType::new(0, false), r, time as u32, LocalTimeType::new(0, true), RuleDay::JulianDayWithLeap(0), 0);
    a.local_std_end_timestamp(ts)
}
pub fn mk_rule_day(kind: u8, a: u32, b: u8, c: u8) -> RuleDay {
    match kind { 0 => RuleDay::JulianDayWithoutLeap(a), 1 => RuleDay::JulianDayWithLeap(a), _ => RuleDay::MonthWeekDay(a as u8, b, c) }
}
/// C19 (lookup half): a rule day the parser can accept resolves for every timestamp of the DateTime range
/// (known finding assumed away by class: timestamps in the first or last representable year, c19_kf_edge_year)
pub fn c19_rule_day_total_holds(kind: u8, a: u32, b: u8, c: u8, time: i32, ts: i64) {
    assume(kind <= 2 && a <= 365 && (kind < 2 || a <= 12));
    let r = mk_rule_day(kind, a, b, c);
    assume(rule_day_valid(&r));
    assume(-RULE_TIME_MAX <= time && time <= RULE_TIME_MAX);
    assume(TS_MIN <= ts && ts <= TS_MAX);
    let _ = rule_instant(r, time, ts);
}
pub fn c19_kf_edge_year(kind: u8, a: u32, b: u8, c: u8, time: i32, ts: i64) -> bool { ts < TS_LO_INNER || ts > TS_HI_INNER }
/// the Unix timestamps DateTime::from_timestamp accepts
pub const TS_MIN: i64 = -185604722784000;
pub const TS_MAX: i64 = 185480451503999;
/// first second of year -5879610 and last second of year 5879610, as Unix timestamps (checked against the crate by the lemma below)
pub const TS_LO_INNER: i64 = -185604706195200;
pub const TS_HI_INNER: i64 = 185480434915199;
pub fn c19_bounds_lemma_holds(_z: u8) {
    assert!(DateTime::from_timestamp(TS_MIN).as_ymdhms() == (-5879611, 6, 23, 0, 0, 0) && DateTime::from_timestamp(TS_MAX).as_ymdhms() == (5879611, 7, 11, 23, 59, 59));
    assert!(DateTime::from_timestamp(TS_LO_INNER).year() == -5879610 && DateTime::from_timestamp(TS_LO_INNER - 1).year() == -5879611);
    assert!(DateTime::from_timestamp(TS_HI_INNER).year() == 5879610 && DateTime::from_timestamp(TS_HI_INNER + 1).year() == 5879611);
}

// ---------------------------------------------------------------- C18: reference semantics of the footer rule (RFC 8536 / POSIX TZ)
pub const EPOCH_DAY: i64 = 719_162; // day number of 1970-01-01 (0001-01-01 = 0)
/// day number of a rule day in `year`: Jn (1..=365, 29 February never counted), n (0..=365, counted), Mm.w.d (d-th weekday, week 5 = last)
pub fn spec_rule_rd(kind: u8, a: u32, b: u8, c: u8, year: i32) -> i64 {
    let jan1 = spec_rd(year, 1, 1);
    match kind {
        0 => jan1 + (a as i64 - 1) + if spec_is_leap(year) && a >= 60 { 1 } else { 0 },
        1 => jan1 + a as i64,
        _ => {
            let first = spec_rd(year, a, 1);
            let delta = floor_mod(c as i64 - spec_weekday(first), 7);
            let mut day = first + delta + 7 * (b as i64 - 1);
            if day >= first + spec_mdays(year, a) as i64 { day -= 7; }
            day
        }
    }
}
/// C18: the local-time instant of a rule day, as a Unix-style count of local seconds
pub fn c18_rule_day_holds(kind: u8, a: u32, b: u8, c: u8, time: i32, ts: i64) {
    assume(kind <= 2 && a <= 365 && (kind < 2 || a <= 12));
    let r = mk_rule_day(kind, a, b, c);
    assume(rule_day_valid(&r));
    assume(-RULE_TIME_MAX <= time && time <= RULE_TIME_MAX);
    assume(TS_LO_INNER <= ts && ts <= TS_HI_INNER);
    let year = DateTime::from_timestamp(ts).year();
    assume(MIN_Y < year && year < MAX_Y && year != 0); // (c18_inner_year_holds: true of every such timestamp)
    if kind == 2 { assume(lemma_rd_month(year, a)); }   // (oracle_rd_month_lemma_holds)
    assume(lemma_rd_inner(year));                       // (oracle_rd_inner_lemma_holds)
    assert!(rule_instant(r, time, ts) == (spec_rule_rd(kind, a, b, c, year) - EPOCH_DAY) * 86_400 + time as i64);
}
/// the year of a timestamp between TS_LO_INNER and TS_HI_INNER is strictly inside the year range (assumed after the year is read
/// in the rule obligations, where the timestamp -> year step is taken as uninterpreted)
pub fn c18_inner_year_holds(ts: i64) {
    assume(TS_LO_INNER <= ts && ts <= TS_HI_INNER);
    let year = DateTime::from_timestamp(ts).year();
    assert!(MIN_Y < year && year < MAX_Y && year != 0);
}
/// field-wise view of an accepted rule for the reader-level comparison: (std utoff, dst utoff, rule 1, time 1, rule 2, time 2)
pub fn rule_day_fields(r: &RuleDay) -> (u8, u32, u8, u8) {
    match r {
        RuleDay::JulianDayWithoutLeap(d) => (0, *d, 0, 0),
        RuleDay::JulianDayWithLeap(d) => (1, *d, 0, 0),
        RuleDay::MonthWeekDay(m, w, d) => (2, *m as u32, *w, *d),
    }
}
pub fn alt_fields(a: &AlternateLocalTimeType) -> (i32, i32, (u8, u32, u8, u8), i32, (u8, u32, u8, u8), i32) {
    (a.std.utoff, a.dst.utoff, rule_day_fields(&a.std_end), a.std_end_time as i32, rule_day_fields(&a.dst_end), a.dst_end_time as i32)
}

// ---- an independent reader of the POSIX TZ string (index based), the reference for what the footer bytes denote
fn r_digit(f: &[u8], p: usize) -> bool { p < f.len() && f[p] >= b'0' && f[p] <= b'9' }
fn r_num(f: &[u8], p: &mut usize) -> Option<i64> {
    if !r_digit(f, *p) { return None; }
    let mut v: i64 = 0;
    while r_digit(f, *p) {
        if v > 100_000_000 { return None; }
        v = v * 10 + (f[*p] - b'0') as i64;
        *p += 1;
    }
    Some(v)
}
fn r_name(f: &[u8], p: &mut usize) -> bool {
    if *p >= f.len() { return false; }
    if f[*p] == b'<' {
        while *p < f.len() && f[*p] != b'>' { *p += 1; }
        if *p >= f.len() { return false; }
        *p += 1;
        true
    } else {
        while *p < f.len() && ((f[*p] >= b'a' && f[*p] <= b'z') || (f[*p] >= b'A' && f[*p] <= b'Z')) { *p += 1; }
        true
    }
}
/// [+-]h[:m[:s]] with h <= hmax: the signed number of seconds
fn r_offset(f: &[u8], p: &mut usize, hmax: i64) -> Option<i64> {
    if *p >= f.len() { return None; }
    let mut sign = 1;
    if f[*p] == b'-' { sign = -1; *p += 1; } else if f[*p] == b'+' { *p += 1; }
    let h = r_num(f, p)?;
    let (mut m, mut s) = (0, 0);
    if *p < f.len() && f[*p] == b':' {
        *p += 1;
        m = r_num(f, p)?;
        if *p < f.len() && f[*p] == b':' {
            *p += 1;
            s = r_num(f, p)?;
        }
    }
    if h > hmax || m > 59 || s > 59 { return None; }
    Some(sign * (h * 3600 + m * 60 + s))
}
fn r_rule(f: &[u8], p: &mut usize, ext: bool) -> Option<((u8, u32, u8, u8), i32)> {
    if *p >= f.len() { return None; }
    let day = if f[*p] == b'J' {
        *p += 1;
        let n = r_num(f, p)?;
        if n < 1 || n > 365 { return None; }
        (0u8, n as u32, 0u8, 0u8)
    } else if f[*p] == b'M' {
        *p += 1;
        let m = r_num(f, p)?;
        if *p >= f.len() || f[*p] != b'.' { return None; }
        *p += 1;
        let w = r_num(f, p)?;
        if *p >= f.len() || f[*p] != b'.' { return None; }
        *p += 1;
        let d = r_num(f, p)?;
        if m < 1 || m > 12 || w < 1 || w > 5 || d > 6 { return None; }
        (2u8, m as u32, w as u8, d as u8)
    } else {
        let n = r_num(f, p)?;
        if n > 365 { return None; }
        (1u8, n as u32, 0u8, 0u8)
    };
    let time = if *p < f.len() && f[*p] == b'/' {
        *p += 1;
        r_offset(f, p, if ext { 167 } else { 24 })? as i32
    } else { 7200 };
    Some((day, time))
}
/// what a well-formed footer denotes: (std utoff, Some(dst utoff, rule 1, time 1, rule 2, time 2)); None: not a well-formed footer
pub fn ref_footer(f: &[u8], ext: bool) -> Option<(i32, Option<(i32, (u8, u32, u8, u8), i32, (u8, u32, u8, u8), i32)>)> {
    let n = f.len();
    if n < 2 || f[0] != b'\n' || f[n - 1] != b'\n' { return None; }
    let f = &f[1..n - 1];
    let mut p = 0usize;
    if f.len() == 0 || f[0] == b':' { return None; }
    if !r_name(f, &mut p) { return None; }
    let std = r_offset(f, &mut p, 24)?;
    if p == f.len() { return Some((-(std as i32), None)); }
    if !r_name(f, &mut p) { return None; }
    if p >= f.len() { return None; }
    let dst = if f[p] == b',' { std - 3600 } else { r_offset(f, &mut p, 24)? };
    if p >= f.len() || f[p] != b',' { return None; }
    p += 1;
    let (r1, t1) = r_rule(f, &mut p, ext)?;
    if p >= f.len() || f[p] != b',' { return None; }
    p += 1;
    let (r2, t2) = r_rule(f, &mut p, ext)?;
    if p != f.len() { return None; }
    Some((-(std as i32), Some((-(dst as i32), r1, t1, r2, t2))))
}
/// the rule instant as the lookup computes it (wrapper for the branch obligation, where the computation itself is taken as an
/// uninterpreted function of its arguments: c18_rule_day_holds is the obligation about its value)
pub fn rule_ts(r: RuleDay, time: i32, ts: i64) -> i64 { rule_instant(r, time, ts) }
