//! C06 Elapsed-unit differences are the exact difference truncated toward zero
use super::common::*;
use crate::{Date, DateTime, DateUtilities, Time, TimeUtilities};

fn sign_ok(diff: i128, r: i128) -> bool {
    (diff > 0 && r >= 0) || (diff < 0 && r <= 0) || (diff == 0 && r == 0)
}
macro_rules! dt_since {
    ($name:ident, $method:ident, $per:expr) => {
        pub fn $name(d1: i32, n1: u64, o1: i32, d2: i32, n2: u64, o2: i32) {
            assume(n1 < NPD as u64); assume(n2 < NPD as u64);
            let a = dt(d1, n1, o1);
            let b = dt(d2, n2, o2);
            let diff = inst(d1, n1) - inst(d2, n2);
            let r = a.$method(&b) as i128;
            assert!(r == trunc_div(diff, $per));
            assert!(sign_ok(diff, r));
            // antisymmetry
            assert!(b.$method(&a) as i128 == -r);
        }
    };
}
dt_since!(c06_dt_days_since_holds, days_since, NPD);
dt_since!(c06_dt_hours_since_holds, hours_since, 3_600_000_000_000i128);
dt_since!(c06_dt_minutes_since_holds, minutes_since, 60_000_000_000i128);
dt_since!(c06_dt_seconds_since_holds, seconds_since, 1_000_000_000i128);
dt_since!(c06_dt_millis_since_holds, millis_since, 1_000_000i128);
dt_since!(c06_dt_micros_since_holds, micros_since, 1_000i128);
dt_since!(c06_dt_nanos_since_holds, nanos_since, 1i128);

macro_rules! time_since {
    ($name:ident, $method:ident, $per:expr) => {
        pub fn $name(n1: u64, o1: i32, n2: u64, o2: i32) {
            assume(n1 < NPD as u64); assume(n2 < NPD as u64);
            let a = tm(n1, o1);
            let b = tm(n2, o2);
            let diff = n1 as i128 - n2 as i128;
            let r = a.$method(&b) as i128;
            assert!(r == trunc_div(diff, $per));
            assert!(sign_ok(diff, r));
            assert!(b.$method(&a) as i128 == -r);
        }
    };
}
time_since!(c06_time_hours_since_holds, hours_since, 3_600_000_000_000i128);
time_since!(c06_time_minutes_since_holds, minutes_since, 60_000_000_000i128);
time_since!(c06_time_seconds_since_holds, seconds_since, 1_000_000_000i128);
time_since!(c06_time_millis_since_holds, millis_since, 1_000_000i128);
time_since!(c06_time_micros_since_holds, micros_since, 1_000i128);
time_since!(c06_time_nanos_since_holds, nanos_since, 1i128);

pub fn c06_date_days_since_holds(d1: i32, d2: i32) {
    let r = Date { days: d1 }.days_since(&Date { days: d2 });
    assert!(r == d1 as i64 - d2 as i64);
    assert!(Date { days: d2 }.days_since(&Date { days: d1 }) == -r);
}
/// duration_between is the absolute difference and is symmetric
pub fn c06_dt_duration_between_holds(d1: i32, n1: u64, o1: i32, d2: i32, n2: u64, o2: i32) {
    assume(n1 < NPD as u64); assume(n2 < NPD as u64);
    let a = dt(d1, n1, o1);
    let b = dt(d2, n2, o2);
    let diff = inst(d1, n1) - inst(d2, n2);
    let abs = if diff < 0 { -diff } else { diff };
    let x = a.duration_between(&b);
    assert!(x.as_secs() as i128 * NPS + x.subsec_nanos() as i128 == abs);
    let y = b.duration_between(&a);
    assert!(y.as_secs() == x.as_secs() && y.subsec_nanos() == x.subsec_nanos());
}
pub fn c06_time_duration_between_holds(n1: u64, o1: i32, n2: u64, o2: i32) {
    assume(n1 < NPD as u64); assume(n2 < NPD as u64);
    let diff = n1 as i128 - n2 as i128;
    let abs = if diff < 0 { -diff } else { diff };
    let x = tm(n1, o1).duration_between(&tm(n2, o2));
    assert!(x.as_secs() as i128 * NPS + x.subsec_nanos() as i128 == abs);
    let y = tm(n2, o2).duration_between(&tm(n1, o1));
    assert!(y.as_secs() == x.as_secs() && y.subsec_nanos() == x.subsec_nanos());
}
pub fn c06_date_duration_between_holds(d1: i32, d2: i32) {
    let diff = d1 as i128 - d2 as i128;
    let abs = if diff < 0 { -diff } else { diff };
    let x = Date { days: d1 }.duration_between(&Date { days: d2 });
    assert!(x.as_secs() as i128 == abs * 86_400 && x.subsec_nanos() == 0);
    let y = Date { days: d2 }.duration_between(&Date { days: d1 });
    assert!(y.as_secs() == x.as_secs());
}
/// inverse of add: a.add_X(k).X_since(a) == k whenever the add returns
macro_rules! add_inverse {
    ($name:ident, $add:ident, $since:ident, $per:expr) => {
        pub fn $name(d: i32, n: u64, off: i32, k: u32) {
            assume(n < NPD as u64); assume(off > -86_400); assume(off < 86_400);
            assume(in_range(inst(d, n) + k as i128 * ($per as i128)));     // "whenever the add returns" (C04 decides that it does)
            let a = dt(d, n, off);
            let b = a.$add(k);
            assert!(b.$since(&a) as i128 == k as i128);
            assert!(a.$since(&b) as i128 == -(k as i128));
        }
    };
}
add_inverse!(c06_inv_days_holds, add_days, days_since, NPD);
add_inverse!(c06_inv_hours_holds, add_hours, hours_since, 3_600_000_000_000i128);
add_inverse!(c06_inv_minutes_holds, add_minutes, minutes_since, 60_000_000_000i128);
add_inverse!(c06_inv_seconds_holds, add_seconds, seconds_since, 1_000_000_000i128);
add_inverse!(c06_inv_millis_holds, add_millis, millis_since, 1_000_000i128);
add_inverse!(c06_inv_micros_holds, add_micros, micros_since, 1_000i128);
add_inverse!(c06_inv_nanos_holds, add_nanos, nanos_since, 1i128);
