//! C04 Adding or subtracting an amount of time moves the instant by exactly that amount
use super::common::*;
use crate::{Date, DateTime, DateUtilities, Time, TimeUtilities};
use std::time::Duration;

macro_rules! dt_unit {
    ($holds:ident, $mustpanic:ident, $method:ident, $per:expr, $sign:expr) => {
        /// target representable => returns exactly that instant, offset unchanged
        pub fn $holds(d: i32, n: u64, off: i32, k: u32) {
            assume(n < NPD as u64); assume(off > -86_400); assume(off < 86_400);
            let target = inst(d, n) + ($sign as i128) * (k as i128) * ($per as i128);
            assume(in_range(target));
            let r = dt(d, n, off).$method(k);
            assert!(r.nanoseconds < NPD as u64);
            assert!(inst_dt(&r) == target);
            assert!(off_secs(r.offset) == off);
        }
        /// target not representable => never returns
        pub fn $mustpanic(d: i32, n: u64, off: i32, k: u32) {
            assume(n < NPD as u64); assume(off > -86_400); assume(off < 86_400);
            let target = inst(d, n) + ($sign as i128) * (k as i128) * ($per as i128);
            assume(!in_range(target));
            let _ = dt(d, n, off).$method(k);
        }
    };
}
dt_unit!(c04_dt_add_days_holds, c04_dt_add_days_mustpanic, add_days, NPD, 1);
dt_unit!(c04_dt_sub_days_holds, c04_dt_sub_days_mustpanic, sub_days, NPD, -1);
dt_unit!(c04_dt_add_hours_holds, c04_dt_add_hours_mustpanic, add_hours, 3_600_000_000_000i128, 1);
dt_unit!(c04_dt_sub_hours_holds, c04_dt_sub_hours_mustpanic, sub_hours, 3_600_000_000_000i128, -1);
dt_unit!(c04_dt_add_minutes_holds, c04_dt_add_minutes_mustpanic, add_minutes, 60_000_000_000i128, 1);
dt_unit!(c04_dt_sub_minutes_holds, c04_dt_sub_minutes_mustpanic, sub_minutes, 60_000_000_000i128, -1);
dt_unit!(c04_dt_add_seconds_holds, c04_dt_add_seconds_mustpanic, add_seconds, 1_000_000_000i128, 1);
dt_unit!(c04_dt_sub_seconds_holds, c04_dt_sub_seconds_mustpanic, sub_seconds, 1_000_000_000i128, -1);
dt_unit!(c04_dt_add_millis_holds, c04_dt_add_millis_mustpanic, add_millis, 1_000_000i128, 1);
dt_unit!(c04_dt_sub_millis_holds, c04_dt_sub_millis_mustpanic, sub_millis, 1_000_000i128, -1);
dt_unit!(c04_dt_add_micros_holds, c04_dt_add_micros_mustpanic, add_micros, 1_000i128, 1);
dt_unit!(c04_dt_sub_micros_holds, c04_dt_sub_micros_mustpanic, sub_micros, 1_000i128, -1);
dt_unit!(c04_dt_add_nanos_holds, c04_dt_add_nanos_mustpanic, add_nanos, 1i128, 1);
dt_unit!(c04_dt_sub_nanos_holds, c04_dt_sub_nanos_mustpanic, sub_nanos, 1i128, -1);

macro_rules! date_days {
    ($holds:ident, $mustpanic:ident, $method:ident, $sign:expr) => {
        pub fn $holds(d: i32, k: u32) {
            let target = d as i64 + ($sign as i64) * k as i64;
            assume(target >= i32::MIN as i64); assume(target <= i32::MAX as i64);
            assert!((Date { days: d }).$method(k).days as i64 == target);
        }
        pub fn $mustpanic(d: i32, k: u32) {
            let target = d as i64 + ($sign as i64) * k as i64;
            assume(!(target >= i32::MIN as i64 && target <= i32::MAX as i64));
            let _ = (Date { days: d }).$method(k);
        }
    };
}
date_days!(c04_date_add_days_holds, c04_date_add_days_mustpanic, add_days, 1);
date_days!(c04_date_sub_days_holds, c04_date_sub_days_mustpanic, sub_days, -1);

// ---- operators
macro_rules! dt_duration {
    ($holds:ident, $mustpanic:ident, $op:tt, $sign:expr) => {
        pub fn $holds(d: i32, n: u64, off: i32, secs: u64, ns: u32) {
            assume(n < NPD as u64); assume(off > -86_400); assume(off < 86_400); assume(ns < 1_000_000_000);
            let target = inst(d, n) + ($sign as i128) * (secs as i128 * NPS + ns as i128);
            assume(in_range(target));
            let r = dt(d, n, off) $op Duration::new(secs, ns);
            assert!(r.nanoseconds < NPD as u64 && inst_dt(&r) == target && off_secs(r.offset) == off);
        }
        pub fn $mustpanic(d: i32, n: u64, off: i32, secs: u64, ns: u32) {
            assume(n < NPD as u64); assume(off > -86_400); assume(off < 86_400); assume(ns < 1_000_000_000);
            let target = inst(d, n) + ($sign as i128) * (secs as i128 * NPS + ns as i128);
            assume(!in_range(target));
            let _ = dt(d, n, off) $op Duration::new(secs, ns);
        }
    };
}
dt_duration!(c04_dt_plus_duration_holds, c04_dt_plus_duration_mustpanic, +, 1);
dt_duration!(c04_dt_minus_duration_holds, c04_dt_minus_duration_mustpanic, -, -1);

macro_rules! dt_time {
    ($holds:ident, $mustpanic:ident, $op:tt, $sign:expr) => {
        pub fn $holds(d: i32, n: u64, off: i32, tn: u64, toff: i32) {
            assume(n < NPD as u64); assume(tn < NPD as u64); assume(off > -86_400); assume(off < 86_400); assume(toff > -86_400); assume(toff < 86_400);
            let target = inst(d, n) + ($sign as i128) * tn as i128;
            assume(in_range(target));
            let r = dt(d, n, off) $op tm(tn, toff);
            assert!(r.nanoseconds < NPD as u64 && inst_dt(&r) == target && off_secs(r.offset) == off);
        }
        pub fn $mustpanic(d: i32, n: u64, off: i32, tn: u64, toff: i32) {
            assume(n < NPD as u64); assume(tn < NPD as u64); assume(off > -86_400); assume(off < 86_400); assume(toff > -86_400); assume(toff < 86_400);
            let target = inst(d, n) + ($sign as i128) * tn as i128;
            assume(!in_range(target));
            let _ = dt(d, n, off) $op tm(tn, toff);
        }
    };
}
dt_time!(c04_dt_plus_time_holds, c04_dt_plus_time_mustpanic, +, 1);
dt_time!(c04_dt_minus_time_holds, c04_dt_minus_time_mustpanic, -, -1);

macro_rules! date_duration {
    ($holds:ident, $mustpanic:ident, $op:tt, $sign:expr) => {
        /// a Date moves by the whole days contained in the Duration
        pub fn $holds(d: i32, secs: u64, ns: u32) {
            assume(ns < 1_000_000_000);
            let target = d as i128 + ($sign as i128) * (secs / 86_400) as i128;
            assume(target >= i32::MIN as i128); assume(target <= i32::MAX as i128);
            let r = Date { days: d } $op Duration::new(secs, ns);
            assert!(r.days as i128 == target);
        }
        pub fn $mustpanic(d: i32, secs: u64, ns: u32) {
            assume(ns < 1_000_000_000);
            let target = d as i128 + ($sign as i128) * (secs / 86_400) as i128;
            assume(!(target >= i32::MIN as i128 && target <= i32::MAX as i128));
            let _ = Date { days: d } $op Duration::new(secs, ns);
        }
    };
}
date_duration!(c04_date_plus_duration_holds, c04_date_plus_duration_mustpanic, +, 1);
date_duration!(c04_date_minus_duration_holds, c04_date_minus_duration_mustpanic, -, -1);
