//! C07 months_since / years_since count whole calendar months and years
//!
//! The quantification is over *consistent* tuples (d, y, m, dd) with days_to_date(d) == (y, m, dd) (declared with
//! bind_days_to_date; every day has exactly one such tuple by C01). The library's months_between/years_between are
//! executed from MIR with only their days_to_date calls answered from those bindings.
use super::common::*;
use crate::{Date, DateTime, DateUtilities};

fn consistent(d: i32, y: i32, m: u32, dd: u32) -> bool {
    y >= MIN_Y && y <= MAX_Y && spec_valid(y, m, dd) && spec_rd(y, m, dd) == d as i64
}
/// months since year 0 (astronomical), so that consecutive months are consecutive integers across -1 -> 1
fn month_index(y: i32, m: u32) -> i64 { astro(y) * 12 + m as i64 - 1 }
fn lex_lt(d1: u32, n1: u64, d2: u32, n2: u64) -> bool { d1 < d2 || (d1 == d2 && n1 < n2) }

/// a >= b, day-of-month(b) <= 28: n = a.months_since(b) is the unique n with b + n months <= a < b + (n+1) months,
/// i.e. (no clamping can occur) n = month distance minus one if a's (day, time) is before b's
pub fn c07_dt_months_since_holds(da: i32, ya: i32, ma: u32, dda: u32, na: u64, db: i32, yb: i32, mb: u32, ddb: u32, nb: u64) {
    assume(na < NPD as u64); assume(nb < NPD as u64); assume(consistent(da, ya, ma, dda)); assume(consistent(db, yb, mb, ddb));
    assume(ddb <= 28);
    let (ia, ib) = (month_index(ya, ma), month_index(yb, mb));
    assume(ia > ib || (ia == ib && !lex_lt(dda, na, ddb, nb))); // a >= b
    bind_days_to_date(da, ya, ma, dda);
    bind_days_to_date(db, yb, mb, ddb);
    let n = dt(da, na, 0).months_since(&dt(db, nb, 0)) as i64;
    let expect = ia - ib - if lex_lt(dda, na, ddb, nb) { 1 } else { 0 };
    assert!(n == expect);
    // the defining inequalities: b + n months <= a < b + (n + 1) months
    assert!(ib + n < ia || (ib + n == ia && !lex_lt(dda, na, ddb, nb)));
    assert!(ia < ib + n + 1 || (ia == ib + n + 1 && lex_lt(dda, na, ddb, nb)));
    // years_since is that count divided by 12, truncated toward zero
    let yrs = dt(da, na, 0).years_since(&dt(db, nb, 0)) as i64;
    assert!(yrs == n / 12);
}
pub fn c07_date_months_since_holds(da: i32, ya: i32, ma: u32, dda: u32, db: i32, yb: i32, mb: u32, ddb: u32) {
    assume(consistent(da, ya, ma, dda)); assume(consistent(db, yb, mb, ddb));
    assume(ddb <= 28);
    let (ia, ib) = (month_index(ya, ma), month_index(yb, mb));
    assume(ia > ib || (ia == ib && dda >= ddb));
    bind_days_to_date(da, ya, ma, dda);
    bind_days_to_date(db, yb, mb, ddb);
    let n = Date { days: da }.months_since(&Date { days: db }) as i64;
    assert!(n == ia - ib - if dda < ddb { 1 } else { 0 });
    let yrs = Date { days: da }.years_since(&Date { days: db }) as i64;
    assert!(yrs == n / 12);
}
/// all pairs: antisymmetric
pub fn c07_antisymmetry_holds(da: i32, ya: i32, ma: u32, dda: u32, na: u64, db: i32, yb: i32, mb: u32, ddb: u32, nb: u64) {
    assume(na < NPD as u64); assume(nb < NPD as u64); assume(consistent(da, ya, ma, dda)); assume(consistent(db, yb, mb, ddb));
    bind_days_to_date(da, ya, ma, dda);
    bind_days_to_date(db, yb, mb, ddb);
    let (a, b) = (dt(da, na, 0), dt(db, nb, 0));
    assert!(a.months_since(&b) == -b.months_since(&a));
    assert!(a.years_since(&b) == -b.years_since(&a));
    assert!(Date { days: da }.months_since(&Date { days: db }) == -Date { days: db }.months_since(&Date { days: da }));
    assert!(Date { days: da }.years_since(&Date { days: db }) == -Date { days: db }.years_since(&Date { days: da }));
}
/// all triples a1 <= a2, b: monotone in a
pub fn c07_monotone_holds(d1: i32, y1: i32, m1: u32, dd1: u32, n1: u64, d2: i32, y2: i32, m2: u32, dd2: u32, n2: u64,
                          db: i32, yb: i32, mb: u32, ddb: u32, nb: u64) {
    assume(n1 < NPD as u64); assume(n2 < NPD as u64); assume(nb < NPD as u64);
    assume(consistent(d1, y1, m1, dd1)); assume(consistent(d2, y2, m2, dd2)); assume(consistent(db, yb, mb, ddb));
    let (i1, i2) = (month_index(y1, m1), month_index(y2, m2));
    assume(i1 < i2 || (i1 == i2 && !lex_lt(dd2, n2, dd1, n1))); // a1 <= a2
    bind_days_to_date(d1, y1, m1, dd1);
    bind_days_to_date(d2, y2, m2, dd2);
    bind_days_to_date(db, yb, mb, ddb);
    let b = dt(db, nb, 0);
    assert!(dt(d1, n1, 0).months_since(&b) <= dt(d2, n2, 0).months_since(&b));
    assert!(dt(d1, n1, 0).years_since(&b) <= dt(d2, n2, 0).years_since(&b));
}
/// order agrees with the sign of the differences (C03)
pub fn c07_sign_holds(da: i32, ya: i32, ma: u32, dda: u32, na: u64, db: i32, yb: i32, mb: u32, ddb: u32, nb: u64) {
    assume(na < NPD as u64); assume(nb < NPD as u64); assume(consistent(da, ya, ma, dda)); assume(consistent(db, yb, mb, ddb));
    bind_days_to_date(da, ya, ma, dda);
    bind_days_to_date(db, yb, mb, ddb);
    let (a, b) = (dt(da, na, 0), dt(db, nb, 0));
    let (ia, ib) = (month_index(ya, ma), month_index(yb, mb));
    let a_lt_b = ia < ib || (ia == ib && lex_lt(dda, na, ddb, nb));
    let a_gt_b = ia > ib || (ia == ib && lex_lt(ddb, nb, dda, na));
    let (ms, ys) = (a.months_since(&b), a.years_since(&b));
    assert!(!a_lt_b || (ms <= 0 && ys <= 0));
    assert!(!a_gt_b || (ms >= 0 && ys >= 0));
    assert!(a_lt_b || a_gt_b || (ms == 0 && ys == 0));
}
