//! C13 RFC 3339 timestamps are read exactly (read side) / C14 the reader never panics
//!
//! The input is a bounded symbolic string: every string of a given byte length over ASCII and two-byte UTF-8
//! sequences. The reference reader below is written over the same bytes, straight from the RFC 3339 ABNF
//! (upper-case T and Z), and is independent of the library.
use super::common::*;
use crate::{DateTime, DateUtilities};
use std::str::FromStr;

fn dig(b: u8) -> bool { b >= b'0' && b <= b'9' }
fn val(b: u8) -> i64 { (b - b'0') as i64 }
fn num2(b: &[u8], i: usize) -> i64 { val(b[i]) * 10 + val(b[i + 1]) }

/// never panics; every Ok value is a valid in-range DateTime (C14, and obligation (a)/(c) of C13)
pub fn c14_parse_rfc3339_total_holds(s: &str) {
    match DateTime::parse_rfc3339(s) {
        Ok(x) => assert!(x.nanoseconds < NPD as u64),
        Err(_) => {}
    }
}
pub fn c14_datetime_from_str_total_holds(s: &str) {
    match DateTime::from_str(s) {
        Ok(x) => assert!(x.nanoseconds < NPD as u64),
        Err(_) => {}
    }
}

/// Grammatical timestamps are accepted with exactly their instant and offset (fraction truncated to nanoseconds);
/// grammatical timestamps with a field out of range are rejected.
/// One obligation per shape of the ABNF: k fraction digits (0 = no fraction) and "Z" or a numeric offset; within a
/// shape every digit is symbolic. The string length is determined by the shape.
pub fn c13_parse_rfc3339_matches_grammar_holds(s: &str, k: usize, zulu: bool) {
    let b = s.as_bytes();
    let n = b.len();
    assume(n == 19 + (if k > 0 { 1 + k } else { 0 }) + (if zulu { 1 } else { 6 }));
    // date-fullyear "-" date-month "-" date-mday "T" hour ":" minute ":" second
    let mut i = 0;
    while i < 19 {
        if i == 4 || i == 7 { assume(b[i] == b'-'); }
        else if i == 10 { assume(b[i] == b'T'); }
        else if i == 13 || i == 16 { assume(b[i] == b':'); }
        else { assume(b[i] >= b'0'); assume(b[i] <= b'9'); }
        i += 1;
    }
    // [ "." 1*DIGIT ]
    let mut p = 19;
    if k > 0 {
        assume(b[19] == b'.');
        i = 0;
        while i < k { assume(b[20 + i] >= b'0'); assume(b[20 + i] <= b'9'); i += 1; }
        p = 20 + k;
    }
    // "Z" / ( "+" / "-" ) hour ":" minute
    let mut off: i64 = 0;
    let mut off_ok = true;
    if zulu {
        assume(b[p] == b'Z');
    } else {
        assume(b[p] == b'+' || b[p] == b'-');
        assume(b[p + 1] >= b'0'); assume(b[p + 1] <= b'9'); assume(b[p + 2] >= b'0'); assume(b[p + 2] <= b'9');
        assume(b[p + 3] == b':');
        assume(b[p + 4] >= b'0'); assume(b[p + 4] <= b'9'); assume(b[p + 5] >= b'0'); assume(b[p + 5] <= b'9');
        let (oh, om) = (num2(b, p + 1), num2(b, p + 4));
        off_ok = oh <= 23 && om <= 59;
        off = oh * 3600 + om * 60;
        if b[p] == b'-' { off = -off; }
    }
    let y = (val(b[0]) * 1000 + val(b[1]) * 100 + val(b[2]) * 10 + val(b[3])) as i32;
    let (mo, d, h, mi, sec) = (num2(b, 5) as u32, num2(b, 8) as u32, num2(b, 11), num2(b, 14), num2(b, 17));
    // fraction truncated to nanoseconds: the first nine digits, zero-padded
    let mut frac: i64 = 0;
    i = 0;
    while i < 9 {
        frac = frac * 10 + if i < k { val(b[20 + i]) } else { 0 };
        i += 1;
    }
    let in_range = y >= 1 && spec_valid(y, mo, d) && h <= 23 && mi <= 59 && sec <= 59 && off_ok;
    match DateTime::parse_rfc3339(s) {
        Ok(x) => {
            assert!(in_range);
            let local = spec_rd(y, mo, d) as i128 * NPD + (h * 3600 + mi * 60 + sec) as i128 * NPS + frac as i128;
            assert!(x.nanoseconds < NPD as u64 && inst_dt(&x) == local - off as i128 * NPS);
            assert!(off_secs(x.offset) as i64 == off);
        }
        Err(_) => assert!(!in_range),
    }
}
