//! C10 An offset changes how an instant is read, never which instant it is
use super::common::*;
use crate::errors::AstrolabeError;
use crate::{Date, DateTime, DateUtilities, Offset, OffsetUtilities, Time, TimeUtilities};

fn margin(d: i32) -> bool { d > i32::MIN && d < i32::MAX }

/// set_offset keeps the instant (day, nanoseconds) and stores the offset
pub fn c10_dt_set_offset_instant_holds(d: i32, n: u64, o0: i32, off: i32) {
    assume(n < NPD as u64); assume(off > -86_400); assume(off < 86_400); assume(o0 > -86_400); assume(o0 < 86_400); assume(margin(d));
    let a = dt(d, n, o0);
    let r = a.set_offset(Offset::Fixed(off));
    assert!(r.days == d && r.nanoseconds == n && off_secs(r.offset) == off);
    assert!(r.timestamp() == a.timestamp() && r == a && r.nanos_since(&a) == 0);
    assert!(off_secs(r.get_offset()) == off);
}
/// every clock getter equals that of the instant shifted by the offset
pub fn c10_dt_time_getters_holds(d: i32, n: u64, off: i32) {
    assume(n < NPD as u64); assume(off > -86_400); assume(off < 86_400); assume(margin(d));
    let r = dt(d, n, 0).set_offset(Offset::Fixed(off));
    let nod = local_nod(d, n, off);
    assert!(r.hour() as i128 == nod / 3_600_000_000_000);
    assert!(r.minute() as i128 == nod / 60_000_000_000 % 60);
    assert!(r.second() as i128 == nod / NPS % 60);
    assert!(r.milli() as i128 == nod % NPS / 1_000_000);
    assert!(r.micro() as i128 == nod % NPS / 1_000);
    assert!(r.nano() as i128 == nod % NPS);
    let (h, m, s) = (r.hour(), r.minute(), r.second());
    assert!(h <= 23 && m <= 59 && s <= 59);
}
/// every date getter equals that of the local day (same argument to the calendar code)
pub fn c10_dt_date_getters_holds(d: i32, n: u64, off: i32) {
    assume(n < NPD as u64); assume(off > -86_400); assume(off < 86_400); assume(margin(d));
    let r = dt(d, n, 0).set_offset(Offset::Fixed(off));
    let ld = Date { days: local_day(d, n, off) as i32 };
    assert!(r.year() == ld.year() && r.month() == ld.month() && r.day() == ld.day());
    assert!(r.day_of_year() == ld.day_of_year() && r.weekday() == ld.weekday());
}
/// as_offset keeps the displayed fields (local reading == former UTC reading) and moves the instant by -offset
pub fn c10_dt_as_offset_holds(d: i32, n: u64, off: i32) {
    assume(n < NPD as u64); assume(off > -86_400); assume(off < 86_400); assume(margin(d));
    let r = dt(d, n, 0).as_offset(Offset::Fixed(off));
    assert!(r.nanoseconds < NPD as u64 && off_secs(r.offset) == off);
    assert!(inst_dt(&r) == inst(d, n) - off as i128 * NPS);
    assert!(local(r.days, r.nanoseconds, off) == inst(d, n));
}
pub fn c10_offset_from_seconds_holds(s: i32) {
    match Offset::from_seconds(s) {
        Ok(o) => assert!(valid_off(s) && off_secs(o) == s && o.resolve() == s),
        Err(AstrolabeError::OutOfRange(_)) => assert!(!valid_off(s)),
        Err(_) => assert!(false),
    }
}
pub fn c10_offset_from_hms_holds(h: i32, m: u32, s: u32) {
    let ok = h >= -23 && h <= 23 && m <= 59 && s <= 59;
    match Offset::from_hms(h, m, s) {
        Ok(o) => {
            let mag = (if h < 0 { -h } else { h }) as i64 * 3600 + m as i64 * 60 + s as i64;
            assert!(ok && off_secs(o) as i64 == if h < 0 { -mag } else { mag });
        }
        Err(AstrolabeError::OutOfRange(_)) => assert!(!ok),
        Err(_) => assert!(false),
    }
}
/// resolve_hms returns what was given (sign carried by the hour; for |offset| < 1 h by the value itself)
pub fn c10_offset_resolve_hms_holds(s: i32) {
    assume(s > -86_400); assume(s < 86_400);
    let (h, m, sec) = Offset::Fixed(s).resolve_hms();
    let mag = if s < 0 { -s } else { s };
    assert!(m as i32 == mag % 3600 / 60 && sec as i32 == mag % 60);
    assert!(h == if s < 0 { -(mag / 3600) } else { mag / 3600 });
    assert!(Offset::Fixed(s).resolve() == s);
}
pub fn c10_offset_hms_roundtrip_holds(h: i32, m: u32, s: u32) {
    assume(h >= -23); assume(h <= 23); assume(m <= 59); assume(s <= 59);
    match Offset::from_hms(h, m, s) {
        Ok(o) => { let (h2, m2, s2) = o.resolve_hms(); assert!(h2 == h && m2 == m && s2 == s); }
        Err(_) => assert!(false),
    }
}
// ---- Time
pub fn c10_time_set_offset_holds(n: u64, o0: i32, off: i32) {
    assume(n < NPD as u64); assume(off > -86_400); assume(off < 86_400); assume(o0 > -86_400); assume(o0 < 86_400);
    let r = tm(n, o0).set_offset(Offset::Fixed(off));
    assert!(r.nanoseconds == n && off_secs(r.offset) == off && off_secs(r.get_offset()) == off);
    let nod = fmod128(n as i128 + off as i128 * NPS, NPD);
    assert!(r.hour() as i128 == nod / 3_600_000_000_000 && r.minute() as i128 == nod / 60_000_000_000 % 60 && r.second() as i128 == nod / NPS % 60);
    assert!(r.milli() as i128 == nod % NPS / 1_000_000 && r.micro() as i128 == nod % NPS / 1_000 && r.nano() as i128 == nod % NPS);
}
pub fn c10_time_as_offset_holds(n: u64, off: i32) {
    assume(n < NPD as u64); assume(off > -86_400); assume(off < 86_400);
    let r = tm(n, 0).as_offset(Offset::Fixed(off));
    assert!(r.nanoseconds < NPD as u64 && off_secs(r.offset) == off);
    assert!(r.nanoseconds as i128 == fmod128(n as i128 - off as i128 * NPS, NPD));
    // reading the fields afterwards is the identity on fields
    assert!(fmod128(r.nanoseconds as i128 + off as i128 * NPS, NPD) == n as i128);
}
