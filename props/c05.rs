//! C05 Month and year arithmetic keeps the day of month, clamped, across every year
use super::common::*;
use crate::util::date::convert::days_to_date;
use crate::{Date, DateTime, DateUtilities};

/// the date `months` calendar months away from (y, m, dd): same day of month, clamped to the target month's length;
/// year -1 directly precedes year 1. Returns (historical year, month, day).
pub fn spec_shift_months(y: i32, m: u32, dd: u32, months: i64) -> (i64, u32, u32) {
    let total = astro(y) * 12 + (m as i64 - 1) + months;
    let ty = floor_div(total, 12);
    let tm = (total - ty * 12 + 1) as u32;
    let hy = hist(ty);
    let md = spec_mdays(hy as i32, tm);
    (hy, tm, if dd > md { md } else { dd })
}
pub fn spec_target_ok(hy: i64, tm: u32, td: u32) -> bool {
    hy >= MIN_Y as i64 && hy <= MAX_Y as i64 && spec_in_range(hy as i32, tm, td)
}

macro_rules! date_shift {
    ($holds:ident, $mustpanic:ident, $method:ident, $mult:expr) => {
        pub fn $holds(d: i32, k: u32) {
            let (y, m, dd) = days_to_date(d);
            let (hy, tm, td) = spec_shift_months(y, m, dd, ($mult as i64) * k as i64);
            assume(spec_target_ok(hy, tm, td));
            let r = (Date { days: d }).$method(k);
            assert!(r.days as i64 == spec_rd(hy as i32, tm, td));
        }
        pub fn $mustpanic(d: i32, k: u32) {
            let (y, m, dd) = days_to_date(d);
            let (hy, tm, td) = spec_shift_months(y, m, dd, ($mult as i64) * k as i64);
            assume(!spec_target_ok(hy, tm, td));
            let _ = (Date { days: d }).$method(k);
        }
    };
}
date_shift!(c05_date_add_months_holds, c05_date_add_months_mustpanic, add_months, 1);
date_shift!(c05_date_sub_months_holds, c05_date_sub_months_mustpanic, sub_months, -1);
date_shift!(c05_date_add_years_holds, c05_date_add_years_mustpanic, add_years, 12);
date_shift!(c05_date_sub_years_holds, c05_date_sub_years_mustpanic, sub_years, -12);

macro_rules! dt_shift {
    ($holds:ident, $mustpanic:ident, $method:ident, $mult:expr) => {
        /// time of day and offset are unchanged
        pub fn $holds(d: i32, n: u64, off: i32, k: u32) {
            assume(n < NPD as u64); assume(off > -86_400); assume(off < 86_400);
            let (y, m, dd) = days_to_date(d);
            let (hy, tm, td) = spec_shift_months(y, m, dd, ($mult as i64) * k as i64);
            assume(spec_target_ok(hy, tm, td));
            let r = dt(d, n, off).$method(k);
            assert!(r.days as i64 == spec_rd(hy as i32, tm, td) && r.nanoseconds == n && off_secs(r.offset) == off);
        }
        pub fn $mustpanic(d: i32, n: u64, off: i32, k: u32) {
            assume(n < NPD as u64); assume(off > -86_400); assume(off < 86_400);
            let (y, m, dd) = days_to_date(d);
            let (hy, tm, td) = spec_shift_months(y, m, dd, ($mult as i64) * k as i64);
            assume(!spec_target_ok(hy, tm, td));
            let _ = dt(d, n, off).$method(k);
        }
    };
}
dt_shift!(c05_dt_add_months_holds, c05_dt_add_months_mustpanic, add_months, 1);
dt_shift!(c05_dt_sub_months_holds, c05_dt_sub_months_mustpanic, sub_months, -1);
dt_shift!(c05_dt_add_years_holds, c05_dt_add_years_mustpanic, add_years, 12);
dt_shift!(c05_dt_sub_years_holds, c05_dt_sub_years_mustpanic, sub_years, -12);
