//! development probes (not part of any check)
use super::common::*;
pub fn probe_l(y: i32, m: u32) -> i64 { let l: i64 = if m > 2 && spec_is_leap(y) { 1 } else { 0 }; l }
pub fn probe_leap(y: i32) -> bool { spec_is_leap(y) }
pub fn probe_cum(m: u32) -> i64 { let cum: i64 = match m { 1 => 0, 2 => 31, 3 => 59, 4 => 90, _ => 334 }; cum }
pub fn probe_leaps(y: i32) -> i64 { let p = astro(y) - 1; floor_div(p, 4) - floor_div(p, 100) + floor_div(p, 400) }
