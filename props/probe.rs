//! self-test of std models that the current library does not use (a refactor might): each function is decided by the
//! solver and differentially validated against the native build (check id SELFTEST, not a property of the library)
use super::common::*;
pub fn probe_std_ints_holds(a: i32, b: i32, c: u32) {
    assert!(a.abs_diff(b) as i64 == (a as i64 - b as i64).abs());
    assert!(a.checked_neg().is_none() == (a == i32::MIN));
    assert!(a.checked_abs().map_or(true, |v| v >= 0));
    assert!(a.checked_div(7).unwrap() == a / 7 && a.checked_rem(7) == Some(a % 7));
    let (s, o) = a.overflowing_add(b);
    assert!(o == (a as i64 + b as i64 != s as i64));
    assert!(a.saturating_mul(3) as i64 == (a as i64 * 3).clamp(i32::MIN as i64, i32::MAX as i64));
    assert!(a.clamp(-5, 5) >= -5 && a.clamp(-5, 5) <= 5);
    assert!(c.min(10) <= 10 && c.max(10) >= 10);
}
pub fn probe_std_options_holds(a: i32, b: i32) {
    let o = if a > 0 { Some(a) } else { None };
    assert!(o.map_or(0, |v| v) == if a > 0 { a } else { 0 });
    assert!(o.map_or_else(|| -1, |v| v) == if a > 0 { a } else { -1 });
    assert!(o.or(Some(b)).unwrap() == if a > 0 { a } else { b });
    assert!(o.and(Some(b)).is_some() == (a > 0));
    assert!(o.filter(|v| *v > 10).is_some() == (a > 10));
    assert!(o.is_some_and(|v| v > 3) == (a > 3));
    assert!(o.unwrap_or_default() == if a > 0 { a } else { 0 });
    assert!((a > b).then_some(a).is_some() == (a > b));
    assert!((a > b).then(|| b).unwrap_or(a) == if a > b { b } else { a });
    let r: Result<i32, i32> = if a > 0 { Ok(a) } else { Err(b) };
    assert!(r.err().is_some() == (a <= 0));
    assert!(r.map_or(7, |v| v + 0) == if a > 0 { a } else { 7 });
}
pub fn probe_std_order_holds(a: i32, b: i32, c: u32, d: u32) {
    let o = a.cmp(&b);
    assert!(o.is_lt() == (a < b) && o.is_ge() == (a >= b) && o.is_eq() == (a == b));
    assert!(o.reverse() == b.cmp(&a));
    assert!(o.then(c.cmp(&d)).is_lt() == (a < b || (a == b && c < d)));
    assert!(((a, c) < (b, d)) == (a < b || (a == b && c < d)));
    assert!(((a, c) >= (b, d)) == !(a < b || (a == b && c < d)));
    assert!((0..24).contains(&a) == (a >= 0 && a < 24) && (1..=12).contains(&c) == (c >= 1 && c <= 12));
    assert!((0..5u8).all(|x| (x as i32) < a) == (a > 4) && (0..5u8).any(|x| x as i32 == a) == (a >= 0 && a < 5));
}

/// Vec with pushes under symbolic control flow: len, index, last, iter().rev()
pub fn probe_vec_holds(a: u32, b: u32, n: u8) {
    let mut v: Vec<u32> = Vec::new();
    if a > 5 { v.push(a); }
    v.push(b);
    if n > 3 { v.push(7); }
    let l = v.len();
    assert!(l == 1 + (a > 5) as usize + (n > 3) as usize);
    assert!(*v.last().unwrap() == if n > 3 { 7 } else { b });
    assert!(v[0] == if a > 5 { a } else { b });
    let mut found = 0u32;
    for x in v.iter().rev() { if *x == b { found = 1; break; } }
    assert!(found == 1);
}
/// Range::step_by(7).collect()
pub fn probe_step_by_holds(first: u32, days: u32) {
    assume(1 <= first); assume(first <= 7); assume(26 <= days); assume(days <= 31);
    let v: Vec<u32> = (first..days).step_by(7).collect();
    assert!(v.len() as u32 == (days - first - 1) / 7 + 1);
    if v.len() > 3 { assert!(v[3] == first + 21); }
    assert!(v[0] == first);
}
/// from_utf8 / trim_matches / parse::<u32> / starts_with on bounded bytes against a hand-written digit loop
pub fn probe_parse_trim_holds(b: &[u8]) {
    if let Ok(s) = std::str::from_utf8(b) {
        let t = s.trim_matches(|c: char| c.is_ascii_whitespace());
        let tb = t.as_bytes();
        let mut i = 0usize; let mut ok = tb.len() > 0; let mut val: u64 = 0;
        if ok && tb[0] == b'+' { i = 1; ok = tb.len() > 1; }
        while i < tb.len() {
            if tb[i] >= b'0' && tb[i] <= b'9' { val = val * 10 + (tb[i] - b'0') as u64; } else { ok = false; }
            i += 1;
        }
        if val > u32::MAX as u64 { ok = false; }
        match t.parse::<u32>() {
            Ok(n) => assert!(ok && n as u64 == val),
            Err(_) => assert!(!ok),
        }
        assert!(t.starts_with('+') == (tb.len() > 0 && tb[0] == b'+'));
        assert!(tb.len() == 0 || !(tb[0] == b' ' || tb[0] == b'\n' || tb[0] == b'\t'));
    }
}
/// to_ascii_uppercase / to_ascii_lowercase on bounded strings against a byte loop
pub fn probe_ascii_case_holds(s: &str) {
    let u = s.to_ascii_uppercase();
    let l = s.to_ascii_lowercase();
    assert!(u.len() == s.len() && l.len() == s.len());
    let (sb, ub, lb) = (s.as_bytes(), u.as_bytes(), l.as_bytes());
    let mut i = 0usize;
    while i < sb.len() {
        let c = sb[i];
        assert!(ub[i] == if c >= b'a' && c <= b'z' { c - 32 } else { c });
        assert!(lb[i] == if c >= b'A' && c <= b'Z' { c + 32 } else { c });
        i += 1;
    }
}
/// encoding validation only (not a claim): to_uppercase: native build and encoding agree, on concrete strings, about
/// the length of the result and one of its bytes
pub fn probe_unicode_case_holds(s: &str, n: usize, k: usize, v: u8) {
    let u = s.to_uppercase();
    assert!(u.len() == n);
    assert!(k >= n || u.as_bytes()[k] == v);
}
