//! self-test of std models that the current library does not use (a refactor might): each function is decided by the
//! solver and differentially validated against the native build (check id SELFTEST, not a property of the library)
use super::common::*;
pub fn probe_std_ints_holds(a: i32, b: i32, c: u32) {
    assert!(a.abs_diff(b) as i64 == (a as i64 - b as i64).abs());
    assert!(a.checked_neg().is_none() == (a == i32::MIN));
    assert!(a.checked_abs().map_or(true, |v| v >= 0));
    assert!(a.checked_div(7).unwrap() == a / 7 && a.checked_rem(7) == Some(a % 7));
    let (s, o) = a.overflowing_add(b);
    assert!(o == (a as i64 + b as i64 != s as i64));
    assert!(a.saturating_mul(3) as i64 == (a as i64 * 3).clamp(i32::MIN as i64, i32::MAX as i64));
    assert!(a.clamp(-5, 5) >= -5 && a.clamp(-5, 5) <= 5);
    assert!(c.min(10) <= 10 && c.max(10) >= 10);
}
pub fn probe_std_options_holds(a: i32, b: i32) {
    let o = if a > 0 { Some(a) } else { None };
    assert!(o.map_or(0, |v| v) == if a > 0 { a } else { 0 });
    assert!(o.map_or_else(|| -1, |v| v) == if a > 0 { a } else { -1 });
    assert!(o.or(Some(b)).unwrap() == if a > 0 { a } else { b });
    assert!(o.and(Some(b)).is_some() == (a > 0));
    assert!(o.filter(|v| *v > 10).is_some() == (a > 10));
    assert!(o.is_some_and(|v| v > 3) == (a > 3));
    assert!(o.unwrap_or_default() == if a > 0 { a } else { 0 });
    assert!((a > b).then_some(a).is_some() == (a > b));
    assert!((a > b).then(|| b).unwrap_or(a) == if a > b { b } else { a });
    let r: Result<i32, i32> = if a > 0 { Ok(a) } else { Err(b) };
    assert!(r.err().is_some() == (a <= 0));
    assert!(r.map_or(7, |v| v + 0) == if a > 0 { a } else { 7 });
}
pub fn probe_std_order_holds(a: i32, b: i32, c: u32, d: u32) {
    let o = a.cmp(&b);
    assert!(o.is_lt() == (a < b) && o.is_ge() == (a >= b) && o.is_eq() == (a == b));
    assert!(o.reverse() == b.cmp(&a));
    assert!(o.then(c.cmp(&d)).is_lt() == (a < b || (a == b && c < d)));
    assert!(((a, c) < (b, d)) == (a < b || (a == b && c < d)));
    assert!(((a, c) >= (b, d)) == !(a < b || (a == b && c < d)));
    assert!((0..24).contains(&a) == (a >= 0 && a < 24) && (1..=12).contains(&c) == (c >= 1 && c <= 12));
    assert!((0..5u8).all(|x| (x as i32) < a) == (a > 4) && (0..5u8).any(|x| x as i32 == a) == (a >= 0 && a < 5));
}
