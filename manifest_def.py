"""Source of MANIFEST.json (tools/gen_manifest.py writes it)."""
NOTE = 'Trusted: rustc MIR dump, the MIR->SMT executor and its std models (validated per run on concrete points against the native build), cvc5/z3. Claims hold within the stated bounds.'
def claim(text, design, technique='MIR symbolic execution -> SMT (linear integer arithmetic + UF), portfolio of cvc5/z3, native replay of counterexamples'):
    return dict(text=text, note=NOTE, technique=technique, design=design)
CLAIMS = {
    'C01': claim('Bounded symbolic model checking of the real code: days_to_date, date_to_days and the Date/DateTime from_ymd/as_ymd wrappers are executed symbolically from rustc MIR '
                 '(both overflow-check profiles) and decided by SMT solvers over ALL 2^32 day numbers and ALL (i32,u32,u32) triples against a closed-form Rata Die oracle whose own '
                 'successor/monotonicity/anchor lemmas are discharged in the same run. No sampling; no bound beyond the types.', '3/C01'),
    'C02': claim('weekday, day_of_year, set_day_of_year, quarter for all 2^32 days (and all offsets for DateTime) against closed-form oracles; week of year for all days as: base 400-year cycle + '
                 'invariance of library and oracle under a 146097-day shift, each decided by the solver at full range (induction over cycles is a stated meta-step), plus a direct window cross-check.', '3/C02'),
    'C03': claim('timestamp round trips and must-panic for all i64 timestamps; ==, <, cmp of DateTime/Date/Time against the instant for all pairs of values and offsets.', '3/C03'),
    'C04': claim('for each of 7 units x {add, sub} on DateTime, days on Date, and the +/- Duration/Time operators: exact target instant when representable (holds) and never-returns when not (must-panic), for all instants x all u32 counts / all Durations.', '3/C04'),
    'C05': claim('add/sub months/years on Date and DateTime for all days x all u32 counts against the clamped calendar-month oracle, exact panic condition; days_to_date/date_to_days enter through their C01 contracts (proved in the same run).', '3/C05'),
    'C06': claim('*_since for 7 units on DateTime, 6 on Time, days on Date = exact difference truncated toward zero, antisymmetry, duration_between = |difference|, add/since inverse, for all pairs.', '3/C06'),
    'C07': claim('months_since/years_since for all pairs (triples for monotonicity) of days and times of day, quantified as consistent (day, y, m, d) tuples with days_to_date answered from those bindings.', '3/C07'),
    'C08': claim('Time add/sub of 6 units for all u32 counts, Time+-Time, Time+-Duration, constructors, From<DateTime>: result in [0, 24h), value = (t +- amount) mod 24h, offset kept.', '3/C08'),
    'C09': claim('10 setters and 9 clears on DateTime (all offsets, two-day margin at the range ends), Date and Time: the result is characterised completely in local time (edited local day / time of day, everything else equal), Err exactly for invalid values.', '3/C09'),
    'C10': claim('set_offset keeps the instant, getters read the shifted instant, as_offset keeps fields and moves the instant, Offset constructors/resolve_hms, Time variants, for all instants (one-day margin) x all offsets.', '3/C10'),
    'C11': claim('REDUCED scope (stated): for every documented symbol and width (113 one-symbol patterns), format_date_part / format_time_part return the documented renderer applied to the documented value, '
                 'for all days / all times of day x all offsets -- strings compared in a free term algebra over the leaf renderers (zero_padded, ordinal, table literals, format! templates); the documentation table is transcribed as a second implementation in props/. '
                 'Decides value-dependent behaviour (12/0/24 o\'clock, noon/midnight, week, quarter, sub-second truncation, zone h/m/s split, sign). `yy` (digit surgery on year.to_string(): String::len, [len-2..], parse) is decided with decimal-suffix string models: year mod 100 in two digits for years >= 1, returns without panic for every day (the table gives no BC example). NOT decided: the tokenizer, concatenation, literals/quoting, and that std prints digits correctly.', '3/C11',
                 technique='MIR symbolic execution with String results as terms -> SMT vs a transcribed documentation table; native replay'),
    'C13': claim('READ side only: DateTime::parse_rfc3339 is executed from MIR on bounded symbolic strings (every byte symbolic) and compared with a reference reader written from the RFC 3339 ABNF: '
                 'one obligation per shape (0..=21 fraction digits quick / 0..=25 thorough, Z or numeric offset; all digits symbolic): grammatical and in range => exactly that instant, offset and truncated fraction; out-of-range field => Err. '
                 'The write side (format_rfc3339) builds Strings through the pattern formatter and is not decided.', '3/C13',
                 technique='MIR symbolic execution with a bounded string model -> SMT, per ABNF shape; native replay'),
    'C14': claim('PARTIAL: only DateTime::parse_rfc3339 and DateTime::from_str: for every string of each listed byte length (<= 45) over ASCII and two-byte UTF-8 sequences (char-boundary panics of str slicing modelled) the call returns Ok/Err and every Ok value is a valid in-range DateTime. '
                 'parse()/format() with pattern strings, Date/Time::from_str and CronSchedule::parse are NOT decided (String/Vec<String> tokenizer code is out of reach of both engines).', '3/C14',
                 technique='MIR symbolic execution with a bounded string model (bytes, char boundaries) -> SMT; native replay'),
    'C17': claim('CronSchedule::next decided by a loop-invariant cut of its real CFG, for ALL schedules at once (five symbolic sets): prologue (start = max(now minute, last) + 1 min, restriction flags), exit edge (returns a matching whole minute and records it), and each of the four continue edges '
                 '(later whole minute, no matching minute skipped; field-constancy lemmas about the getters discharged in the same run). Any number of carry steps and call histories follow by induction (stated meta-step). Clock/loop state in 2022-2025 (quick) or 1970-9999 (thorough), offset 0. Counterexamples are replayed end to end against the real next() and a minute-by-minute search.', '3/C17',
                 technique='MIR symbolic execution started at CFG cut points (loop invariant), symbolic sets, UF getters + proven lemmas -> SMT; native end-to-end replay'),
    'C18': claim('The TZif reader and lookup executed from MIR in three parts. (1) Transition table read from bytes: version 1 and version 2/3 files with the listed numbers of transitions and types, every content byte symbolic, '
                 'every timestamp from the first transition on: the resolved offset is the type of the latest transition at or before the timestamp (oracle decodes the bytes independently). '
                 '(2) Footer: for every file whose footer follows one of the listed POSIX-TZ class templates (all digits symbolic) and is well formed according to an independent reference reader, the reader accepts it and builds exactly the denoted rule; a fixed rule answers every lookup from the last transition on. '
                 '(3) Rule semantics for ALL accepted rules (Jn / n / Mm.w.d, any rule time in +-167 h, any pair of offsets) and all timestamps of the inner years: each rule instant equals a closed-form calendar reference (Jn skips 29 February, week 5 = last), and the lookup answers daylight time exactly between the two instants in either order; '
                 'calendar closed forms enter as uninterpreted functions constrained by contracts and lemmas that are obligations of the same run. NOT decided: files outside the listed shapes, the first/last representable year, Offset::Local I/O, agreement of the reference with CPython zoneinfo.', '0.8 (C18)',
                 technique='MIR symbolic execution with a bounded byte-string model (class-fixed and free bytes), contracts/UF for calendar kernels -> SMT; independent reference readers in Rust as oracles; native replay'),
    'C19': claim('Reader half: TimeZone::from_tzif executed from MIR on bounded families of byte strings: version-1 files of each length 44..58 with ALL six counts (< 256; two shapes with all 32 bits) and all content bytes symbolic (so overrunning counts, every truncation, every type index are inside), truncated headers, wrong magic, unsupported versions, larger fixed tables exact / short / with trailing bytes, '
                 'version 2/3 files with ~75 footer templates (valid, hostile: missing parts, oversized numbers, NUL, non-UTF-8, stray bytes) and every single-byte ASCII substitution / insertion / deletion of base templates, short all-free footers: the reader returns (Ok or Err), never panics, table / fixed-rule lookups succeed for every i64 timestamp, and every accepted alternating rule has fields in the validated ranges. '
                 'Lookup half: for EVERY rule the reader can accept (those ranges) x every rule time x every timestamp of the DateTime range the rule lookup returns, except the listed known finding (first/last representable year).', '0.8 (C19)',
                 technique='MIR symbolic execution with a bounded byte-string model, symbolic-length slices/Vec, contracts for calendar kernels -> SMT; reader post-condition + lookup pre-condition composition; native replay'),
    'C15': claim('from_ymdhms/from_hms/from_seconds/from_nanos/Offset constructors/set_*: Ok exactly for valid arguments with the oracle value; DateTime date AND time setters under any offset up to the first/last representable day (Err(OutOfRange) exactly when the edited local value is not a representable instant, never a panic); stated ranges exclude the rejected value and contain every accepted one (relational query), over the full parameter domains.', '3/C15'),
}
NOT_APPLICABLE = {
    'C12': 'parse(format(v, p), p): both directions run through the String/Vec<String> tokenizer and char-level consumers, out of reach of CBMC (memory) and of the MIR engine (no model of alloc::string at that scale); deciding it on concrete patterns and values would be enumeration, not solving.',
    'C16': 'the quantified object is the cron expression string; parse_cron_part is split/strip_prefix/to_lowercase/HashSet::extend code that neither engine can execute symbolically. The set semantics once a schedule exists are covered by C17 for all value sets.',
    'C20': 'Display/FromStr/serde: every path is format()/parse() on Strings (plus the optional serde dependency, which is not in the offline build); the one reachable piece, DateTime::from_str == parse_rfc3339, is covered under C13/C14.',
}
PENDING = 'check not built yet in this revision (planned with the same solver-based technique, see DESIGN.md section 3)'
ALL = ['C%02d' % i for i in range(1, 21)]

def manifest():
    checks = []
    for pid in ALL:
        if pid not in CLAIMS: continue
        c = CLAIMS[pid]
        checks.append({
            'property_id': pid,
            'quick_cmd': './check %s --tier quick' % pid,
            'thorough_cmd': './check %s --tier thorough' % pid,
            'evidence_file': '/verif/evidence/%s.json' % pid,
            'replay_cmd_template': './check --replay {path}',
            'engine': c.get('engine', 'engine_m'),
            'level_claimed': {'category': 'model_checking', 'text': c['text'], 'design_ref': 'DESIGN.md section ' + c['design']},
            'level_note': c['note'],
            'technique': c['technique'],
        })
    na = [{'property_id': p, 'reason': NOT_APPLICABLE.get(p, PENDING)} for p in ALL if p not in CLAIMS]
    return {
        'version': 1,
        'setup_cmd': 'python3-vt -c "import z3; print(z3.get_version_string())" && cvc5 --version | head -1 && cargo +nightly --version',
        'hooks': {'guard': 'none', 'enable': 'no source hooks: checks copy /repo/src into a scratch crate and inject /verif/props (cron properties build the copy with --cfg test to use the crate\'s own clock pin)',
                  'baseline_off_cmd': 'cd /repo && cargo test --workspace --no-fail-fast --offline', 'source_commits': [], 'add_only': True},
        'engines': [
            {'name': 'engine_m', 'path': '/verif/engine_m', 'serves_properties': sorted(CLAIMS), 'kind_free_text': 'symbolic executor for rustc MIR text -> SMT-LIB2 (linear integer arithmetic + UF), solvers cvc5 / z3 raced; native replay of every counterexample'},
        ],
        'checks': checks,
        'not_applicable': na,
        'notes': 'exit 0 = all obligations discharged; exit 1 = VIOLATION (replayed natively); exit 2 = inconclusive (never reported as success). See DESIGN.md.',
    }
