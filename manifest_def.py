"""Source of MANIFEST.json (tools/gen_manifest.py writes it)."""
CLAIMS = {
    'C01': dict(
        text='Bounded symbolic model checking of the real code: days_to_date, date_to_days and the Date/DateTime from_ymd/as_ymd wrappers are executed '
             'symbolically from rustc MIR (both overflow-check profiles) and decided by SMT solvers over ALL 2^32 day numbers and ALL (i32,u32,u32) triples '
             'against a closed-form Rata Die oracle whose own successor/monotonicity/anchor lemmas are discharged in the same run. No sampling; bounds: none beyond the types.',
        note='Trusted: rustc MIR dump, the MIR->SMT executor and its std models (validated per run on concrete points against the native build), cvc5/z3.',
        technique='MIR symbolic execution -> SMT (LIA) vs closed-form oracle, full type range', design='3/C01'),
}
NOT_APPLICABLE = {}
PENDING = 'check not built yet in this revision (planned with the same solver-based technique, see DESIGN.md section 3)'
ALL = ['C%02d' % i for i in range(1, 21)]

def manifest():
    checks = []
    for pid in ALL:
        if pid not in CLAIMS: continue
        c = CLAIMS[pid]
        checks.append({
            'property_id': pid,
            'quick_cmd': './check %s --tier quick' % pid,
            'thorough_cmd': './check %s --tier thorough' % pid,
            'evidence_file': '/verif/evidence/%s.json' % pid,
            'replay_cmd_template': './check --replay {path}',
            'engine': c.get('engine', 'engine_m'),
            'level_claimed': {'category': 'model_checking', 'text': c['text'], 'design_ref': 'DESIGN.md section ' + c['design']},
            'level_note': c['note'],
            'technique': c['technique'],
        })
    na = [{'property_id': p, 'reason': NOT_APPLICABLE.get(p, PENDING)} for p in ALL if p not in CLAIMS]
    return {
        'version': 1,
        'setup_cmd': 'python3-vt -c "import z3; print(z3.get_version_string())" && cvc5 --version | head -1 && cargo +nightly --version',
        'hooks': {'guard': 'none', 'enable': 'no source hooks: checks copy /repo/src into a scratch crate and inject /verif/props (cron properties build the copy with --cfg test to use the crate\'s own clock pin)',
                  'baseline_off_cmd': 'cd /repo && cargo test --workspace --no-fail-fast --offline', 'source_commits': [], 'add_only': True},
        'engines': [
            {'name': 'engine_m', 'path': '/verif/engine_m', 'serves_properties': sorted(CLAIMS), 'kind_free_text': 'symbolic executor for rustc MIR text -> SMT-LIB2 (linear integer arithmetic + UF), solvers cvc5 / z3 raced; native replay of every counterexample'},
        ],
        'checks': checks,
        'not_applicable': na,
        'notes': 'exit 0 = all obligations discharged; exit 1 = VIOLATION (replayed natively); exit 2 = inconclusive (never reported as success). See DESIGN.md.',
    }
