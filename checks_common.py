"""Abstractions (proven contracts) and executor hooks shared by the checks."""
from engine_m import oblig
from engine_m.models import Abstraction

def _d2d(ex):
    return Abstraction('days_to_date', 'contract_days_to_date',
                       [('y', 'i32', -5_879_611, 5_879_611), ('m', 'u32', 1, 12), ('d', 'u32', 1, 31)])
oblig.ABSTRACTION_TABLE['days_to_date'] = _d2d
