"""Abstractions (proven contracts) and executor hooks shared by the checks."""
from engine_m import oblig
from engine_m.models import Abstraction, BoundAbstraction

def _d2d(ex):
    return Abstraction('days_to_date', 'contract_days_to_date',
                       [('y', 'i32', -5_879_611, 5_879_611), ('m', 'u32', 1, 12), ('d', 'u32', 1, 31)])
oblig.ABSTRACTION_TABLE['days_to_date'] = _d2d

# uninterpreted variants (congruence only): used where a property compares two calls with provably equal arguments
def _d2d_uf(ex):
    return Abstraction('days_to_date', None, [('y', 'i32', -2**31, 2**31 - 1), ('m', 'u32', 0, 2**32 - 1), ('d', 'u32', 0, 2**32 - 1)])
def _doy_uf(ex):
    return Abstraction('days_to_doy', None, [('doy', 'u32', 0, 2**32 - 1)])
oblig.ABSTRACTION_TABLE['days_to_date/uf'] = _d2d_uf
oblig.ABSTRACTION_TABLE['days_to_doy/uf'] = _doy_uf

oblig.ABSTRACTION_TABLE['days_to_date/bound'] = lambda ex: BoundAbstraction('days_to_date')
