"""Abstractions (proven contracts) and executor hooks shared by the checks."""
from engine_m import oblig
from engine_m import strings   # registers the bounded string layer
from engine_m import fmtterms  # registers the string-term layer (enabled per obligation with opts['fmt_terms'])
from engine_m.models import Abstraction, BoundAbstraction
from engine_m.sym import En, IV, Agg, Opaque, mk_int, Inconclusive
import z3

def _d2d(ex):
    return Abstraction('days_to_date', 'contract_days_to_date',
                       [('y', 'i32', -5_879_611, 5_879_611), ('m', 'u32', 1, 12), ('d', 'u32', 1, 31)])
oblig.ABSTRACTION_TABLE['days_to_date'] = _d2d

# uninterpreted variants (congruence only): used where a property compares two calls with provably equal arguments
def _d2d_uf(ex):
    return Abstraction('days_to_date', None, [('y', 'i32', -2**31, 2**31 - 1), ('m', 'u32', 0, 2**32 - 1), ('d', 'u32', 0, 2**32 - 1)])
def _doy_uf(ex):
    return Abstraction('days_to_doy', None, [('doy', 'u32', 0, 2**32 - 1)])
oblig.ABSTRACTION_TABLE['days_to_date/uf'] = _d2d_uf
oblig.ABSTRACTION_TABLE['days_to_doy/uf'] = _doy_uf

oblig.ABSTRACTION_TABLE['days_to_date/bound'] = lambda ex: BoundAbstraction('days_to_date')

# date_to_days through its contract (C01 obligation 2): Ok(k) exactly for valid in-range triples, k = closed-form day count
def _dtd_build(ex, args, res):
    ok, k = res
    disc = IV(z3.If(ok.t, 0, 1), 'isize', 0, 1)
    # c01_date_to_days_holds shows that every error is AstrolabeError::OutOfRange; its fields are not modelled here
    err = En(mk_int(0, 'isize'), {0: [Opaque('OutOfRange')]}, 'AstrolabeError')
    # side fact (c01_triple_roundtrip_holds): the day built from a valid in-range triple reads back as that triple
    d2d = ex.abstractions.get('days_to_date')
    if isinstance(d2d, Abstraction) and d2d.contract_last == 'contract_days_to_date':
        I = z3.IntSort()
        y, m, d = [ex.deref(a) for a in args[:3]]
        for nm, v in (('y', y), ('m', m), ('d', d)):
            uf = z3.Function('A_days_to_date_%s' % nm, I, I)
            ex.ctx.side.append(z3.Implies(ok.t, uf(k.t) == v.t))
    return En(disc, {0: [k], 1: [err]}, 'Result')
oblig.ABSTRACTION_TABLE['date_to_days'] = lambda ex: Abstraction('date_to_days', 'contract_date_to_days', [('ok', 'bool'), ('k', 'i32', -2**31, 2**31 - 1)], build=_dtd_build)
# year_doy_to_days through its contract (c18_year_doy_contract_holds; years strictly inside the range only: callers must be there)
def _ydd_flat(ex, args):
    y, doy, ign = [ex.deref(a) for a in args[:3]]
    if ign.c is None: raise Inconclusive('year_doy_to_days abstraction: symbolic ignore_leap')
    return [y, doy, mk_int(1 if ign.c else 0, 'u8')]
def _ydd_build(ex, args, res):
    ok, k = res
    disc = IV(z3.If(ok.t, 0, 1), 'isize', 0, 1)
    return En(disc, {0: [k], 1: [En(mk_int(0, 'isize'), {0: [Opaque('OutOfRange')]}, 'AstrolabeError')]}, 'Result')
oblig.ABSTRACTION_TABLE['year_doy_to_days'] = lambda ex: Abstraction('year_doy_to_days', 'contract_year_doy_to_days', [('ok', 'bool'), ('k', 'i32', -2**31, 2**31 - 1)], flatten=_ydd_flat, build=_ydd_build)
oblig.ABSTRACTION_TABLE['is_leap_year'] = lambda ex: Abstraction('is_leap_year', 'contract_is_leap_year', [('l', 'bool')])
# the closed-form day count as an uninterpreted pure function (sound over-approximation; used where only congruence matters)
# the rule instant as an uninterpreted function of (rule day, time, timestamp): the branch logic of the lookup is checked for any values
def _rule_flat(ex, args):
    from engine_m.sym import merge, bv_of
    r = ex.deref(args[0]); out = [r.disc]
    for i in range(3):
        val = None
        for k in sorted(r.v):
            p = r.v[k]
            x = ex.deref(p[i]) if i < len(p) else mk_int(0, 'u32')
            x = IV(x.t, 'i64', x.lo, x.hi)
            val = x if val is None else merge(bv_of(r.disc.t == k), x, val)
        out.append(val)
    return out + [ex.deref(args[1]), ex.deref(args[2])]
oblig.ABSTRACTION_TABLE['rule_to_local_timestamp/uf'] = lambda ex: Abstraction('rule_to_local_timestamp', None, [('x', 'i64', -2**62, 2**62)], flatten=_rule_flat)
oblig.ABSTRACTION_TABLE['spec_is_leap/uf'] = lambda ex: Abstraction('spec_is_leap', None, [('l', 'bool')], always=True)
oblig.ABSTRACTION_TABLE['spec_rd/uf'] = lambda ex: Abstraction('spec_rd', 'contract_spec_rd_bound', [('rd', 'i64', -2**62, 2**62)], always=True)

# the two instant <-> (day, nanoseconds) kernels through their contracts (c03_*_contract_holds, discharged in the same run)
def _n2dn_build(ex, args, res):
    ok, d, n = res
    disc = IV(z3.If(ok.t, 0, 1), 'isize', 0, 1)
    err = En(mk_int(0, 'isize'), {0: [Opaque('OutOfRange')]}, 'AstrolabeError')
    return En(disc, {0: [Agg([d, n])], 1: [err]}, 'Result')
oblig.ABSTRACTION_TABLE['nanos_to_days_nanos'] = lambda ex: Abstraction('nanos_to_days_nanos', 'contract_nanos_to_days_nanos',
    [('ok', 'bool'), ('d', 'i32', -2**31, 2**31 - 1), ('n', 'u64', 0, 86_400_000_000_000 - 1)], build=_n2dn_build)
oblig.ABSTRACTION_TABLE['days_nanos_to_nanos'] = lambda ex: Abstraction('days_nanos_to_nanos', 'contract_days_nanos_to_nanos', [('t', 'i128', -2**127, 2**127 - 1)])

oblig.ABSTRACTION_TABLE['nanos_to_time'] = lambda ex: Abstraction('nanos_to_time', 'contract_nanos_to_time',
    [('h', 'u32', 0, 2**32 - 1), ('m', 'u32', 0, 2**32 - 1), ('s', 'u32', 0, 2**32 - 1)])
